//! Runner `edge` (C16): the `ShardEdge` logics of `src/func/shard_edge.rs`.
//!
//! A case = `logic <name>`, then either a real set-up
//! (`setup <n> <eps index> <max_shard>`, `floats …`, `params …`) or raw parameters obtained by
//! patching the serialized form of the logic struct (`params …` alone), then queries.
//!
//! * `setup` runs the REAL `set_up_shards(n, eps)` + `set_up_graphs(n, max_shard)` (what
//!   `VBuilder::try_seed` does) under `catch`.
//! * `floats <shb> <deb> <cm> <linS> <linDbg> <fuseS> <segF>` carries the floating-point
//!   sub-results of that set-up, recomputed here from the same expressions (or extracted from the
//!   real code as a black box: `deb`, `fuseS`); the model feeds them to its `setUp` and must
//!   produce the real parameters (or `panic` exactly when the real code panicked).
//! * `params <shift> <s> <l> <seg>` loads the parameters read from `Debug` of the real struct
//!   into the model; the reply is `ParamsOK` (model) vs the naive oracle's `ParamsOK`.
//! * queries are compared exactly between the real code and the model *given these parameters*.
//!
//! Naive oracle: u128 re-derivation of the fuse / mwhc edge from the segment structure
//! (first segment `f`, offsets xored within a segment), of `shard` as the top `h` bits, and the
//! C16 property itself evaluated on the real outputs.
use crate::common::*;
use epserde::prelude::*;
use std::fmt::Debug;
use std::io::Cursor;
use std::marker::PhantomData;
use sux::func::shard_edge::*;
use sux::utils::Sig;

const EPS: [f64; 4] = [0.001, 0.01, 0.1, 0.5];
const MAX_LIN_SIZE: usize = 800_000;
const HALF_MAX_LIN_SHARD_SIZE: usize = 50_000;
const MIN_FUSE_SHARD: usize = 10_000_000;

#[derive(Clone, Copy, PartialEq, Eq, Debug)]
enum Lg {
    FuseShards,
    FuseNoShards2,
    FuseNoShards1,
    FuseFullSigs,
    MwhcShards,
    MwhcNoShards,
}
use Lg::*;
/// the logics this build of the harness can instantiate (`Mwhc3*` need the cargo feature `mwhc`
/// of this crate, which enables `sux/mwhc`)
#[cfg(feature = "mwhc")]
const ALL: [Lg; 6] = [
    FuseShards,
    FuseNoShards2,
    FuseNoShards1,
    FuseFullSigs,
    MwhcShards,
    MwhcNoShards,
];
#[cfg(not(feature = "mwhc"))]
const ALL: [Lg; 4] = [FuseShards, FuseNoShards2, FuseNoShards1, FuseFullSigs];

impl Lg {
    fn name(self) -> &'static str {
        match self {
            FuseShards => "fuse_shards",
            FuseNoShards2 => "fuse_noshards2",
            FuseNoShards1 => "fuse_noshards1",
            FuseFullSigs => "fuse_fullsigs",
            MwhcShards => "mwhc_shards",
            MwhcNoShards => "mwhc_noshards",
        }
    }
    fn parse(s: &str) -> Option<Lg> {
        ALL.iter().copied().find(|l| l.name() == s)
    }
    fn sharded(self) -> bool {
        matches!(self, FuseShards | FuseFullSigs | MwhcShards)
    }
    fn is_fuse(self) -> bool {
        !matches!(self, MwhcShards | MwhcNoShards)
    }
    fn vertex_u32(self) -> bool {
        matches!(self, FuseShards | FuseNoShards1 | FuseFullSigs | MwhcShards)
    }
}

/// (shift, s, l, seg): fields a logic does not have keep the model's defaults (63, 0, 0, 0)
#[derive(Clone, Copy, PartialEq, Eq, Debug)]
struct P {
    shift: u64,
    s: u64,
    l: u64,
    seg: u64,
}

trait SigT: Sig + Copy {
    fn mk(w0: u64, w1: u64) -> Self;
    fn pair(&self) -> (u64, u64);
}
impl SigT for [u64; 2] {
    fn mk(w0: u64, w1: u64) -> Self {
        [w0, w1]
    }
    fn pair(&self) -> (u64, u64) {
        (self[0], self[1])
    }
}
impl SigT for [u64; 1] {
    fn mk(w0: u64, _w1: u64) -> Self {
        [w0]
    }
    fn pair(&self) -> (u64, u64) {
        (self[0], 0)
    }
}

/// object-safe view of a `ShardEdge<S, 3>`
trait Dyn {
    fn set_up_shards(&mut self, n: usize, eps: f64);
    fn set_up_graphs(&mut self, n: usize, ms: usize) -> (f64, bool);
    fn dbg(&self) -> String;
    fn bytes(&self) -> Vec<u8>;
    fn shard_high_bits(&self) -> u32;
    fn num_shards(&self) -> usize;
    fn num_vertices(&self) -> usize;
    fn num_sort_keys(&self) -> usize;
    fn edge(&self, w0: u64, w1: u64) -> [usize; 3];
    fn local_edge(&self, w0: u64, w1: u64) -> [usize; 3];
    fn local_sig(&self, w0: u64, w1: u64) -> (u64, u64);
    fn shard(&self, w0: u64, w1: u64) -> usize;
    fn sort_key(&self, w0: u64, w1: u64) -> usize;
    fn high_bits(&self, w0: u64, w1: u64) -> u64;
}

struct W<S, E>(E, PhantomData<S>);

impl<S: SigT, E: ShardEdge<S, 3> + Debug + epserde::ser::Serialize> Dyn for W<S, E>
where
    E::LocalSig: SigT,
{
    fn set_up_shards(&mut self, n: usize, eps: f64) {
        self.0.set_up_shards(n, eps)
    }
    fn set_up_graphs(&mut self, n: usize, ms: usize) -> (f64, bool) {
        self.0.set_up_graphs(n, ms)
    }
    fn dbg(&self) -> String {
        format!("{:?}", self.0)
    }
    fn bytes(&self) -> Vec<u8> {
        let mut v = Vec::new();
        self.0.serialize(&mut v).unwrap();
        v
    }
    fn shard_high_bits(&self) -> u32 {
        self.0.shard_high_bits()
    }
    fn num_shards(&self) -> usize {
        self.0.num_shards()
    }
    fn num_vertices(&self) -> usize {
        self.0.num_vertices()
    }
    fn num_sort_keys(&self) -> usize {
        self.0.num_sort_keys()
    }
    fn edge(&self, w0: u64, w1: u64) -> [usize; 3] {
        self.0.edge(S::mk(w0, w1))
    }
    fn local_edge(&self, w0: u64, w1: u64) -> [usize; 3] {
        self.0.local_edge(<E::LocalSig as SigT>::mk(w0, w1))
    }
    fn local_sig(&self, w0: u64, w1: u64) -> (u64, u64) {
        self.0.local_sig(S::mk(w0, w1)).pair()
    }
    fn shard(&self, w0: u64, w1: u64) -> usize {
        self.0.shard(S::mk(w0, w1))
    }
    fn sort_key(&self, w0: u64, w1: u64) -> usize {
        self.0.sort_key(S::mk(w0, w1))
    }
    fn high_bits(&self, w0: u64, w1: u64) -> u64 {
        // as the signature store calls it
        let h = self.0.shard_high_bits();
        S::mk(w0, w1).high_bits(h, (1u64 << h) - 1)
    }
}

fn wrap<S: SigT + 'static, E: ShardEdge<S, 3> + Debug + epserde::ser::Serialize + 'static>(e: E) -> Box<dyn Dyn>
where
    E::LocalSig: SigT,
{
    Box::new(W::<S, E>(e, PhantomData))
}

fn fresh_logic(lg: Lg) -> Box<dyn Dyn> {
    match lg {
        FuseShards => wrap::<[u64; 2], _>(FuseLge3Shards::default()),
        FuseNoShards2 => wrap::<[u64; 2], _>(FuseLge3NoShards::default()),
        FuseNoShards1 => wrap::<[u64; 1], _>(FuseLge3NoShards::default()),
        FuseFullSigs => wrap::<[u64; 2], _>(FuseLge3FullSigs::default()),
        #[cfg(feature = "mwhc")]
        MwhcShards => wrap::<[u64; 2], _>(Mwhc3Shards::default()),
        #[cfg(feature = "mwhc")]
        MwhcNoShards => wrap::<[u64; 2], _>(Mwhc3NoShards::default()),
        #[cfg(not(feature = "mwhc"))]
        _ => panic!("run_edge: built without the `mwhc` feature"),
    }
}

/// the logic struct with the given private fields, obtained from its ε-serde serialized form
/// (the fields are the tail of the byte stream)
fn logic_with(lg: Lg, p: P) -> Option<Box<dyn Dyn>> {
    let mut b = fresh_logic(lg).bytes();
    let n = b.len();
    let u32le = |x: u64| -> Option<[u8; 4]> { u32::try_from(x).ok().map(|v| v.to_le_bytes()) };
    match lg {
        FuseShards | FuseFullSigs => {
            b[n - 12..n - 8].copy_from_slice(&u32le(p.shift)?);
            b[n - 8..n - 4].copy_from_slice(&u32le(p.s)?);
            b[n - 4..n].copy_from_slice(&u32le(p.l)?);
        }
        FuseNoShards2 | FuseNoShards1 => {
            b[n - 8..n - 4].copy_from_slice(&u32le(p.s)?);
            b[n - 4..n].copy_from_slice(&u32le(p.l)?);
        }
        MwhcShards => {
            b[n - 12..n - 4].copy_from_slice(&p.seg.to_le_bytes());
            b[n - 4..n].copy_from_slice(&u32le(p.shift)?);
        }
        MwhcNoShards => {
            b[n - 8..n].copy_from_slice(&p.seg.to_le_bytes());
        }
    }
    let mut c = Cursor::new(&b);
    Some(match lg {
        FuseShards => wrap::<[u64; 2], _>(FuseLge3Shards::deserialize_full(&mut c).ok()?),
        FuseNoShards2 => wrap::<[u64; 2], _>(FuseLge3NoShards::deserialize_full(&mut c).ok()?),
        FuseNoShards1 => wrap::<[u64; 1], _>(FuseLge3NoShards::deserialize_full(&mut c).ok()?),
        FuseFullSigs => wrap::<[u64; 2], _>(FuseLge3FullSigs::deserialize_full(&mut c).ok()?),
        #[cfg(feature = "mwhc")]
        MwhcShards => wrap::<[u64; 2], _>(Mwhc3Shards::deserialize_full(&mut c).ok()?),
        #[cfg(feature = "mwhc")]
        MwhcNoShards => wrap::<[u64; 2], _>(Mwhc3NoShards::deserialize_full(&mut c).ok()?),
        #[cfg(not(feature = "mwhc"))]
        _ => return None,
    })
}

fn field(dbg: &str, name: &str) -> Option<u64> {
    // tokens of `Name { a: 1, b: 2 }` / `Name(Inner { … })`
    let toks: Vec<&str> = dbg
        .split(|c: char| !(c.is_ascii_alphanumeric() || c == '_'))
        .filter(|t| !t.is_empty())
        .collect();
    let i = toks.iter().position(|t| *t == name)?;
    toks.get(i + 1)?.parse().ok()
}

/// the REAL parameters, read from `Debug`
fn params_of(r: &dyn Dyn) -> P {
    let d = r.dbg();
    P {
        shift: field(&d, "shard_bits_shift").unwrap_or(63),
        s: field(&d, "log2_seg_size").unwrap_or(0),
        l: field(&d, "l").unwrap_or(0),
        seg: field(&d, "seg_size").unwrap_or(0),
    }
}

// ---------------------------------------------------------------------------- naive oracle

fn h_of(lg: Lg, p: P) -> u64 {
    if lg.sharded() {
        63u64.saturating_sub(p.shift)
    } else {
        0
    }
}

/// number of vertices per shard as an unbounded number (None: not even representable in u128)
fn v_of(lg: Lg, p: P) -> Option<u128> {
    if lg.is_fuse() {
        if p.s >= 64 {
            return None;
        }
        Some((p.l as u128 + 2) << p.s)
    } else {
        Some(p.seg as u128 * 3)
    }
}

fn params_ok(lg: Lg, p: P) -> bool {
    let basic = if lg.is_fuse() {
        p.l >= 1 && p.s < 64
    } else {
        p.seg >= 1
    };
    if !basic || (lg.sharded() && p.shift > 63) {
        return false;
    }
    let v = v_of(lg, p).unwrap();
    let h = h_of(lg, p);
    v < (1u128 << (64 - h)) && (!lg.vertex_u32() || v <= 1u128 << 32)
}

/// top `h` bits of a word
fn top_bits(w: u64, h: u64) -> u128 {
    if h == 0 {
        0
    } else {
        (w >> (64 - h)) as u128
    }
}

/// expected (shard, local edge) under `ParamsOK`, derived from the segment structure
fn oracle_edge(lg: Lg, p: P, w0: u64, w1: u64) -> (u128, [u128; 3]) {
    let h = h_of(lg, p);
    let sh = top_bits(w0, h);
    if lg.is_fuse() {
        let seg = 1u128 << p.s;
        let mask = seg - 1;
        // (word inverted into the first l segments, offset perturbations a and b)
        let (x, a, b) = match lg {
            FuseShards => (w1, w1 as u128 & mask, (w1 as u128 >> p.s) & mask),
            FuseNoShards1 => (w0, w0 as u128 & mask, (w0 as u128 >> p.s) & mask),
            FuseNoShards2 => (w0, (w1 >> 32) as u128 & mask, (w1 & 0xFFFF_FFFF) as u128 & mask),
            FuseFullSigs => (
                w0.rotate_left(h as u32),
                (w1 >> 32) as u128 & mask,
                (w1 & 0xFFFF_FFFF) as u128 & mask,
            ),
            _ => unreachable!(),
        };
        let t = (x as u128 * (p.l as u128 * seg)) >> 64;
        let f = t >> p.s; // first segment, < l
        let off = t & mask;
        let v0 = t;
        let v1 = (f + 1) * seg + (off ^ a);
        let v2 = (f + 2) * seg + (off ^ a ^ b);
        (sh, [v0, v1, v2])
    } else {
        let seg = p.seg as u128;
        let e = match lg {
            MwhcShards => [
                ((w0 & 0xFFFF_FFFF) as u128 * seg) >> 32,
                seg + (((w1 >> 32) as u128 * seg) >> 32),
                2 * seg + (((w1 & 0xFFFF_FFFF) as u128 * seg) >> 32),
            ],
            _ => [
                (w0 as u128 * seg) >> 64,
                seg + ((w1 as u128 * seg) >> 64),
                2 * seg + (((w0 ^ w1) as u128 * seg) >> 64),
            ],
        };
        (sh, e)
    }
}

fn oracle_local_sig(lg: Lg, w0: u64, w1: u64) -> (u64, u64) {
    match lg {
        FuseShards => (w1, 0),
        FuseNoShards1 => (w0, 0),
        _ => (w0, w1),
    }
}

fn oracle_sort_key(lg: Lg, p: P, w0: u64, w1: u64) -> u128 {
    let l = p.l as u128;
    match lg {
        FuseShards => (w1 as u128 * l) >> 64,
        FuseNoShards2 | FuseNoShards1 => (w0 as u128 * l) >> 64,
        FuseFullSigs => ((w0.rotate_left(h_of(lg, p) as u32) >> 32) as u128 * l) >> 32,
        _ => 0,
    }
}

// ---------------------------------------------------------------------------- float sub-results

fn sharding_high_bits(n: usize, eps: f64) -> u32 {
    let t = (n as f64 * eps * eps / 2.0).max(1.);
    (t.log2() - t.ln().max(1.).log2()).floor() as u32
}

fn lin_log2_seg_size(n: usize) -> u32 {
    (0.85 * (n.max(1) as f64).ln()).floor().max(1.) as u32
}

fn fuse_c(n: usize) -> f64 {
    if n <= MIN_FUSE_SHARD / 2 {
        1.125
    } else if n <= MIN_FUSE_SHARD {
        1.12
    } else if n <= 2 * MIN_FUSE_SHARD {
        1.11
    } else {
        1.105
    }
}

fn noshards_c(n: usize) -> f64 {
    if n <= MAX_LIN_SIZE {
        0.168 + (300000_f64).ln().ln() / (n as f64 + 200000.).ln().max(1.).ln()
    } else {
        fuse_c(n)
    }
}

/// `dup_edge_high_bits` is private: extract `min(deb, anything the code also takes the min with)`
/// from the real `set_up_shards` with an ε so large that `sharding_high_bits` does not bind.
/// 64 = "at least 64" (the real `63 - …` underflowed).
fn deb_blackbox(lg: Lg, n: usize) -> u64 {
    let mut t = fresh_logic(lg);
    match catch(move || {
        t.set_up_shards(n, 1e9);
        t.shard_high_bits()
    }) {
        Some(h) => h as u64,
        None => 64,
    }
}

/// the `floats` line for a set-up of `lg` with (n, eps, max_shard)
fn floats_line(lg: Lg, n: usize, eps: f64, ms: usize) -> String {
    let shb = sharding_high_bits(n, eps) as u64;
    let (mut deb, mut cm, mut lin_s, mut lin_dbg, mut fuse_s, mut seg_f) =
        (0u64, 0u128, 0u64, true, 0u64, 0u64);
    match lg {
        FuseShards | FuseFullSigs => {
            if n > MAX_LIN_SIZE {
                deb = deb_blackbox(lg, n);
            }
            let c = if n <= 100 {
                1.23
            } else if n <= MAX_LIN_SIZE {
                1.125
            } else {
                fuse_c(ms)
            };
            cm = (c * ms as f64).ceil() as usize as u128;
            lin_s = lin_log2_seg_size(ms) as u64;
            lin_dbg = ms as f64 <= 1.01 * (2 * HALF_MAX_LIN_SHARD_SIZE) as f64;
            fuse_s = FuseLge3Shards::log2_seg_size(3, ms) as u64;
        }
        FuseNoShards2 | FuseNoShards1 => {
            let c = if n <= 100 {
                1.23
            } else if n <= 2 * HALF_MAX_LIN_SHARD_SIZE {
                1.13
            } else {
                noshards_c(n)
            };
            cm = (c * n as f64).ceil() as u128;
            lin_s = lin_log2_seg_size(n) as u64;
            lin_dbg = n as f64 <= 1.01 * (2 * HALF_MAX_LIN_SHARD_SIZE) as f64;
            fuse_s = FuseLge3NoShards::log2_seg_size(3, n) as u64;
        }
        MwhcShards => {
            deb = deb_blackbox(lg, n);
            // raw float result; the `.max(1)` is integer post-processing (model side)
            seg_f = ((ms as f64 * 1.23) / 3.).ceil() as usize as u64;
        }
        MwhcNoShards => {
            seg_f = ((n as f64 * 1.23) / 3.).ceil() as usize as u64;
        }
    }
    format!(
        "floats {} {} {} {} {} {} {}",
        shb,
        deb,
        cm,
        lin_s,
        b01(lin_dbg),
        fuse_s,
        seg_f
    )
}

// ---------------------------------------------------------------------------- op execution

struct St {
    lg: Lg,
    real: Box<dyn Dyn>,
    p: P,
    /// outcome of the last real set-up: None = not run, Some(None) = panicked, Some(Some(lge))
    setup: Option<Option<bool>>,
    from_setup: bool,
    /// (n, max_shard) of the last set-up is something `VBuilder::try_seed` can pass
    adm: bool,
    n: usize,
}

fn fresh() -> St {
    St {
        lg: FuseShards,
        real: fresh_logic(FuseShards),
        p: P { shift: 63, s: 0, l: 0, seg: 0 },
        setup: None,
        from_setup: false,
        adm: false,
        n: 0,
    }
}

fn fmt_edge<T: std::fmt::Display>(e: [T; 3]) -> String {
    format!("[{},{},{}]", e[0], e[1], e[2])
}

fn exec(ctx: &mut Ctx, st: &mut St, op: &str) {
    ctx.op(op);
    let t: Vec<&str> = op.split(' ').collect();
    let num = |i: usize| -> u64 { t[i].parse::<u64>().unwrap() };
    match t[0] {
        "logic" => {
            let lg = Lg::parse(t[1]).unwrap();
            *st = fresh();
            st.lg = lg;
            st.real = fresh_logic(lg);
            ctx.reply("ok");
        }
        "setup" => {
            let (n, e, ms) = (num(1) as usize, num(2) as usize, num(3) as usize);
            st.adm = admissible(st.lg, n, EPS[e], ms);
            st.n = n;
            let mut r = fresh_logic(st.lg);
            let res = catch(move || {
                r.set_up_shards(n, EPS[e]);
                let (_c, lge) = r.set_up_graphs(n, ms);
                (r, lge)
            });
            match res {
                Some((r, lge)) => {
                    st.real = r;
                    st.setup = Some(Some(lge));
                    st.from_setup = true;
                }
                None => {
                    st.real = fresh_logic(st.lg);
                    st.setup = Some(None);
                    st.from_setup = false;
                    ctx.stat(&format!(
                        "setup_panic:{}:{}",
                        st.lg.name(),
                        if st.adm { "admissible" } else { "inadmissible" }
                    ));
                }
            }
            st.p = params_of(&*st.real);
            ctx.reply("ok");
        }
        "floats" => match st.setup {
            Some(Some(lge)) => {
                let p = st.p;
                ctx.reply(&format!("ok {} {} {} {} {}", p.shift, p.s, p.l, p.seg, b01(lge)));
            }
            _ => ctx.reply("panic"),
        },
        "params" => {
            let p = P { shift: num(1), s: num(2), l: num(3), seg: num(4) };
            let r = logic_with(st.lg, p).expect("params not representable");
            // the patched struct must be the one we asked for (and, after a real set-up, the
            // very struct the set-up produced)
            let back = params_of(&*r);
            let want = params_of_norm(st.lg, p);
            ctx.check_oracle(&format!("{:?}", want), &format!("{:?}", back));
            if st.from_setup {
                ctx.check_oracle(&st.real.dbg(), &r.dbg());
            }
            st.real = r;
            st.p = want;
            let ok = params_ok(st.lg, st.p);
            if st.from_setup && st.adm {
                // C16 (set-up part): a successful real set-up on sizes the builder can pass
                // yields ParamsOK parameters (also for n = 0 with the mwhc logics: D20 fixed)
                ctx.check_oracle("paramsok 1", &format!("paramsok {}", b01(ok)));
            }
            ctx.stat(if ok { "params:ok" } else { "params:not_ok" });
            ctx.reply(&format!("ok {}", b01(ok)));
        }
        "num_vertices" | "num_shards" | "num_sort_keys" | "shard_high_bits" => {
            let r = &st.real;
            let got = catch(|| match t[0] {
                "num_vertices" => r.num_vertices() as u128,
                "num_shards" => r.num_shards() as u128,
                "num_sort_keys" => r.num_sort_keys() as u128,
                _ => r.shard_high_bits() as u128,
            });
            if params_ok(st.lg, st.p) {
                let exp = match t[0] {
                    "num_vertices" => v_of(st.lg, st.p).unwrap(),
                    "num_shards" => 1u128 << h_of(st.lg, st.p),
                    "num_sort_keys" => {
                        if st.lg.is_fuse() {
                            st.p.l as u128
                        } else {
                            1
                        }
                    }
                    _ => h_of(st.lg, st.p) as u128,
                };
                ctx.check_oracle(&format!("{:?}", Some(exp)), &format!("{:?}", got));
            }
            match got {
                Some(v) => ctx.reply(&format!("ok {}", v)),
                None => ctx.reply("panic"),
            }
        }
        "edge" | "local_edge" | "local_sig" | "shard" | "sort_key" | "high_bits" | "check" => {
            let (w0, w1) = (num(1), num(2));
            let (lg, p) = (st.lg, st.p);
            let ok = params_ok(lg, p);
            let r = &st.real;
            match t[0] {
                "edge" => {
                    let got = catch(|| r.edge(w0, w1));
                    if ok {
                        let (sh, le) = oracle_edge(lg, p, w0, w1);
                        let b = sh * v_of(lg, p).unwrap();
                        let exp = [le[0] + b, le[1] + b, le[2] + b];
                        ctx.check_oracle(
                            &format!("ok {}", fmt_edge(exp)),
                            &got.map_or("panic".to_string(), |e| format!("ok {}", fmt_edge(e))),
                        );
                    }
                    ctx.reply(&got.map_or("panic".to_string(), |e| format!("ok {}", fmt_edge(e))));
                }
                "local_edge" => {
                    let got = catch(|| r.local_edge(w0, w1));
                    if ok {
                        // local edge of a local signature = edge of shard 0; the oracle formula
                        // for the unsharded reading of (w0, w1)
                        let (lw0, lw1) = match lg {
                            // local sig [x] is what the sharded logic reads from sig[1]
                            FuseShards => (0, w0),
                            _ => (w0, w1),
                        };
                        let (_sh, le) = oracle_edge(lg, p, lw0, lw1);
                        ctx.check_oracle(
                            &format!("ok {}", fmt_edge(le)),
                            &got.map_or("panic".to_string(), |e| format!("ok {}", fmt_edge(e))),
                        );
                    }
                    ctx.reply(&got.map_or("panic".to_string(), |e| format!("ok {}", fmt_edge(e))));
                }
                "local_sig" => {
                    let got = catch(|| r.local_sig(w0, w1));
                    let exp = oracle_local_sig(lg, w0, w1);
                    ctx.check_oracle(&format!("{:?}", Some(exp)), &format!("{:?}", got));
                    ctx.reply(&got.map_or("panic".to_string(), |(a, b)| format!("ok {} {}", a, b)));
                }
                "shard" => {
                    let got = catch(|| r.shard(w0, w1));
                    if ok {
                        let exp = top_bits(w0, h_of(lg, p));
                        ctx.check_oracle(
                            &format!("{:?}", Some(exp)),
                            &format!("{:?}", got.map(|x| x as u128)),
                        );
                    }
                    ctx.reply(&got.map_or("panic".to_string(), |x| format!("ok {}", x)));
                }
                "sort_key" => {
                    let got = catch(|| r.sort_key(w0, w1));
                    if ok {
                        let exp = oracle_sort_key(lg, p, w0, w1);
                        ctx.check_oracle(
                            &format!("{:?}", Some(exp)),
                            &format!("{:?}", got.map(|x| x as u128)),
                        );
                        // C16: sort_key < num_sort_keys
                        let nk = if lg.is_fuse() { p.l as u128 } else { 1 };
                        if exp >= nk {
                            ctx.check_oracle("sort_key < num_sort_keys", "violated");
                        }
                    }
                    ctx.reply(&got.map_or("panic".to_string(), |x| format!("ok {}", x)));
                }
                "high_bits" => {
                    let got = catch(|| r.high_bits(w0, w1));
                    if ok {
                        let exp = top_bits(w0, h_of(lg, p));
                        ctx.check_oracle(
                            &format!("{:?}", Some(exp)),
                            &format!("{:?}", got.map(|x| x as u128)),
                        );
                    }
                    ctx.reply(&got.map_or("panic".to_string(), |x| format!("ok {}", x)));
                }
                _ => {
                    // the C16 statement evaluated on what the real code returns
                    let got = catch(|| {
                        let e = r.edge(w0, w1);
                        let (l0, l1) = r.local_sig(w0, w1);
                        let le = r.local_edge(l0, l1);
                        let sh = r.shard(w0, w1) as u128;
                        let v = r.num_vertices() as u128;
                        let ns = r.num_shards() as u128;
                        let b = sh * v;
                        let e = [e[0] as u128, e[1] as u128, e[2] as u128];
                        e[0] != e[1]
                            && e[0] != e[2]
                            && e[1] != e[2]
                            && sh < ns
                            && v * ns < 1u128 << 64
                            && e.iter().all(|&x| b <= x && x < b + v)
                            && (0..3).all(|i| e[i] == le[i] as u128 + b)
                    });
                    let holds = got.unwrap_or(false);
                    if ok {
                        ctx.check_oracle("C16 holds", if holds { "C16 holds" } else { "C16 violated" });
                    }
                    ctx.stat(if holds { "check:1" } else { "check:0" });
                    ctx.reply(&format!("ok {}", b01(holds)));
                }
            }
        }
        _ => panic!("run_edge: unknown op {}", op),
    }
}

/// parameters as the struct can hold them (fields the logic does not have read back as defaults)
fn params_of_norm(lg: Lg, p: P) -> P {
    match lg {
        FuseShards | FuseFullSigs => P { seg: 0, ..p },
        FuseNoShards2 | FuseNoShards1 => P { shift: 63, seg: 0, ..p },
        MwhcShards => P { s: 0, l: 0, ..p },
        MwhcNoShards => P { shift: 63, s: 0, l: 0, ..p },
    }
}

// ---------------------------------------------------------------------------- generators

/// words with every field the computation reads at 0, 1, 2^k - 1, 2^k, all-ones
fn interesting_words(rng: &mut Rng, lg: Lg, p: P, extra_random: usize) -> Vec<u64> {
    let h = h_of(lg, p);
    let s = p.s.min(63);
    let mut ks: Vec<u64> = vec![0, 1, 31, 32, 33, 62, 63, s, 2 * s, s + 32, 64 - h.min(63), h];
    ks.retain(|&k| k < 64);
    ks.sort();
    ks.dedup();
    let mut v = vec![0u64, 1, 2, u64::MAX, u64::MAX - 1];
    for &k in &ks {
        let b = 1u64 << k;
        v.push(b);
        v.push(b - 1);
        v.push(b.wrapping_add(1));
        v.push(!b);
        v.push(!(b - 1)); // the top 64-k bits
    }
    for _ in 0..extra_random {
        v.push(rng.next_u64());
        v.push(rng.word());
    }
    v.sort();
    v.dedup();
    v
}

fn sig_battery(rng: &mut Rng, lg: Lg, p: P, budget: usize) -> Vec<(u64, u64)> {
    let ws = interesting_words(rng, lg, p, 3);
    let mut out = vec![];
    if budget >= 2 * ws.len() {
        for &w in &ws {
            out.push((w, w));
            out.push((w, *rng.pick(&ws)));
            out.push((*rng.pick(&ws), w));
        }
    }
    while out.len() < budget {
        let a = if rng.chance(1, 2) { *rng.pick(&ws) } else { rng.next_u64() };
        let b = if rng.chance(1, 2) { *rng.pick(&ws) } else { rng.next_u64() };
        out.push((a, b));
    }
    out.truncate(budget.max(1));
    out
}

fn queries(ctx: &mut Ctx, st: &mut St, budget: usize, light: bool) {
    for op in ["num_vertices", "num_shards", "num_sort_keys", "shard_high_bits"] {
        exec(ctx, st, op);
    }
    let sigs = sig_battery(&mut ctx.rng, st.lg, st.p, budget);
    for (w0, w1) in sigs {
        let w1 = if st.lg == FuseNoShards1 { 0 } else { w1 };
        exec(ctx, st, &format!("edge {} {}", w0, w1));
        exec(ctx, st, &format!("check {} {}", w0, w1));
        if light {
            continue;
        }
        let (l0, l1) = oracle_local_sig(st.lg, w0, w1);
        exec(ctx, st, &format!("local_sig {} {}", w0, w1));
        exec(ctx, st, &format!("local_edge {} {}", l0, l1));
        exec(ctx, st, &format!("shard {} {}", w0, w1));
        exec(ctx, st, &format!("sort_key {} {}", w0, w1));
        exec(ctx, st, &format!("high_bits {} {}", w0, w1));
    }
}

/// number of shards the real code would use for (n, eps): to derive realistic max-shard sizes
fn real_num_shards(lg: Lg, n: usize, eps: f64) -> usize {
    let mut t = fresh_logic(lg);
    catch(move || {
        t.set_up_shards(n, eps);
        t.num_shards()
    })
    .unwrap_or(1)
}

/// Can `VBuilder::try_seed` call `set_up_graphs(n, ms)` after `set_up_shards(n, eps)`?
/// `ms` is the largest of `shards` shard sizes summing to `n`, and
/// `ms as f64 <= 1.01 * n / shards` was checked.  Key counts above 10^16 are beyond the
/// documented limit ("This strategy will work up to 10^16 keys").
fn admissible(lg: Lg, n: usize, eps: f64, ms: usize) -> bool {
    let shards = real_num_shards(lg, n, eps);
    n <= 10_000_000_000_000_000
        && ms >= n.div_ceil(shards)
        && ms <= n
        && (ms as f64) <= 1.01 * n as f64 / shards as f64
}

/// one real set-up case
fn setup_case(ctx: &mut Ctx, lg: Lg, n: usize, e: usize, ms: usize, budget: usize, light: bool) {
    ctx.case();
    let mut st = fresh();
    exec(ctx, &mut st, &format!("logic {}", lg.name()));
    exec(ctx, &mut st, &format!("setup {} {} {}", n, e, ms));
    let fl = floats_line(lg, n, EPS[e], ms);
    exec(ctx, &mut st, &fl);
    let regime = if n <= 100 {
        "small"
    } else if n <= 2 * HALF_MAX_LIN_SHARD_SIZE {
        "lin1"
    } else if n <= MAX_LIN_SIZE {
        "lin"
    } else if n <= 2 * MIN_FUSE_SHARD {
        "fuse-bff"
    } else {
        "fuse"
    };
    match st.setup {
        Some(Some(_)) => {
            let p = st.p;
            ctx.shape(format!(
                "{}:{}:h{}:s{}:l{}",
                lg.name(),
                regime,
                h_of(lg, p),
                p.s,
                64 - p.l.leading_zeros()
            ));
            exec(ctx, &mut st, &format!("params {} {} {} {}", p.shift, p.s, p.l, p.seg));
            queries(ctx, &mut st, budget, light);
        }
        _ => {
            // data: where the real set-up panics
            let bits = |x: usize| 64 - x.leading_zeros();
            ctx.stat(&format!(
                "setup_panic_at:{}:{}:{}:n~2^{}:max_shard~2^{}",
                lg.name(),
                regime,
                if st.adm { "admissible" } else { "inadmissible" },
                bits(n),
                bits(ms)
            ));

            ctx.shape(format!("{}:{}:panic", lg.name(), regime));
        }
    }
}

/// one raw-parameter case (struct obtained from its serialized form)
fn raw_case(ctx: &mut Ctx, lg: Lg, p: P, budget: usize) {
    ctx.case();
    let mut st = fresh();
    exec(ctx, &mut st, &format!("logic {}", lg.name()));
    let p = params_of_norm(lg, p);
    exec(ctx, &mut st, &format!("params {} {} {} {}", p.shift, p.s, p.l, p.seg));
    ctx.shape(format!(
        "{}:raw:ok{}:h{}:s{}:l{}:g{}",
        lg.name(),
        b01(params_ok(lg, p)),
        h_of(lg, p),
        p.s.min(70),
        64 - p.l.leading_zeros(),
        64 - p.seg.leading_zeros()
    ));
    queries(ctx, &mut st, budget, false);
}

/// max-shard sizes for (n, shards): exact average rounded up, the builder's 1.01 bound, and
/// (malformed) others
fn max_shards(n: usize, shards: usize) -> (usize, usize) {
    let avg = n.div_ceil(shards.max(1));
    // largest m with m as f64 <= 1.01 * n / shards (the guard of `try_seed`)
    let bound = (1.01 * n as f64 / shards as f64).floor() as usize;
    (avg, bound.max(avg))
}

fn all_setups(ctx: &mut Ctx, lg: Lg, n: usize, budget: usize, light: bool, all_eps: bool) {
    let eps_list: Vec<usize> = if lg.sharded() && all_eps { vec![0, 1, 2, 3] } else { vec![0] };
    let mut seen = std::collections::BTreeSet::new();
    for e in eps_list {
        let shards = real_num_shards(lg, n, EPS[e]);
        let (a, b) = max_shards(n, shards);
        for ms in [a, b] {
            if seen.insert((shards, ms)) {
                setup_case(ctx, lg, n, e, ms, budget, light);
            }
        }
    }
}

fn boundary_ns() -> Vec<usize> {
    let mut v: Vec<usize> = vec![
        0, 1, 2, 3, 4, 7, 10, 99, 100, 101, 102, 1000, 49_999, 50_000, 50_001, 99_999, 100_000,
        100_001, 101_000, 101_001, 799_999, 800_000, 800_001, 4_999_999, 5_000_000, 5_000_001,
        3_800_000_000, 3_886_000_000, 3_886_848_466, 3_886_848_467, 3_900_000_000,
    ];
    for k in 0..=4 {
        // regime boundaries of set_up_shards in the linear regime
        for d in [-1i64, 0, 1] {
            v.push(((HALF_MAX_LIN_SHARD_SIZE << k) as i64 + d) as usize);
        }
    }
    for k in 0..=16 {
        for d in [-1i64, 0, 1] {
            v.push(((MIN_FUSE_SHARD << k) as i64 + d) as usize);
        }
    }
    for k in 0..=16 {
        v.push(10usize.pow(k));
    }
    for k in 1..=40 {
        for d in [-1i64, 0, 1] {
            v.push(((1u64 << k) as i64 + d) as usize);
        }
    }
    v.sort();
    v.dedup();
    v
}

fn random_n(rng: &mut Rng) -> usize {
    match rng.below(10) {
        0 => rng.usize_below(5001),
        1 => *rng.pick(&boundary_ns()),
        2 => {
            // near a regime boundary
            let base = *rng.pick(&[100usize, 100_000, 800_000, 5_000_000, 10_000_000, 20_000_000]);
            base - 3 + rng.usize_below(7)
        }
        _ => {
            // log-uniform up to 10^12
            let bits = 1 + rng.below(40);
            let x = rng.next_u64() & ((1u64 << bits) - 1) | (1u64 << (bits - 1));
            (x as usize).min(1_000_000_000_000)
        }
    }
}

fn directed(ctx: &mut Ctx) {
    // (1) every logic at the boundary key counts, every ε, realistic max-shard sizes
    let ns = boundary_ns();
    for lg in ALL {
        for &n in &ns {
            all_setups(ctx, lg, n, 10, false, n > MAX_LIN_SIZE);
        }
    }
    // (2) full signature batteries on a few representative set-ups
    for lg in ALL {
        for &(n, e) in &[
            (1usize, 0usize),
            (100, 0),
            (12_345, 0),
            (150_000, 0),
            (800_000, 0),
            (3_000_000, 0),
            (100_000_000, 0),
            (100_000_000, 2),
            (1_000_000_000_000, 0),
            (1_000_000_000_000, 3),
        ] {
            let shards = real_num_shards(lg, n, EPS[e]);
            let (_, ms) = max_shards(n, shards);
            setup_case(ctx, lg, n, e, ms, 160, false);
        }
    }
    // (3) out-of-domain set-ups: absurd sizes (the real code may panic; reported as data)
    for lg in ALL {
        for &(n, ms) in &[
            (0usize, 0usize),
            (10, 0),
            (10, 1_000_000),
            (1000, 101_000),
            (1000, 101_001),
            (1000, 200_000),
            (900_000, 100_000),
            (900_000, 100_001),
            (900_000, 0),
            (1 << 40, 1 << 40),
            (1 << 50, 1 << 33),
            (1 << 50, 3_500_000_000),
            (1 << 50, 3_800_000_000),
            (1 << 50, 3_886_848_467),
            (1 << 50, 4_000_000_000),
            (1 << 62, 1 << 40),
            (usize::MAX, usize::MAX),
            (usize::MAX, 1 << 63),
            (usize::MAX / 2, 1 << 20),
            (42_949_672_960_000_000, 3_000_000_000),
            (42_949_672_960_000_001, 3_000_000_000),
        ] {
            setup_case(ctx, lg, n, 0, ms, 6, false);
            if lg.sharded() {
                setup_case(ctx, lg, n, 3, ms, 6, false);
            }
        }
    }
    // (4) raw parameters: the whole ParamsOK domain is far larger than what set-ups produce
    let fuse_raw: &[(u64, u64, u64)] = &[
        // (shift, s, l)
        (63, 0, 1),
        (63, 0, 0),               // l = 0: default-constructed struct, not ParamsOK
        (63, 1, 1),
        (63, 5, 34),
        (63, 32, 1),
        (63, 30, 2),              // V = 2^32
        (63, 30, 3),              // V > 2^32
        (63, 61, 1),              // V = 3 * 2^61
        (63, 62, 1),              // V = 3 * 2^62 >= 2^64
        (63, 62, 2),              // (l+2) << s wraps to 0
        (63, 63, 1),
        (63, 64, 1),              // shift amount 64
        (63, 100, 5),
        (23, 3, 30),              // h = 40, V = 2^8
        (23, 20, 14),             // h = 40, V = 2^24: V * 2^h = 2^64
        (23, 19, 30),             // h = 40, V = 2^24
        (23, 19, 29),             // just below
        (31, 28, 14),             // h = 32, V = 2^32: product 2^64
        (32, 28, 14),             // h = 31, V = 2^32: product 2^63
        (0, 0, 1),                // h = 63, V = 3: 3 * 2^63 >= 2^64
        (1, 0, 1),                // h = 62, V = 3
        (1, 0, 2),                // h = 62, V = 4: product 2^64
        (64, 3, 5),               // shard_bits_shift = 64
        (100, 3, 5),
        (60, 15, 439),
        (50, 10, 4_000_000),      // l large
        (63, 0, 4_294_967_293),   // l + 2 = 2^32 - 1
        (63, 0, 4_294_967_294),   // l + 2 = 2^32
        (63, 0, 4_294_967_295),   // l = u32::MAX
        (63, 31, 4_294_967_294),
        (63, 32, 4_294_967_294),  // (l+2) << 32 wraps to 0
    ];
    for lg in [FuseShards, FuseNoShards2, FuseNoShards1, FuseFullSigs] {
        for &(shift, s, l) in fuse_raw {
            raw_case(ctx, lg, P { shift, s, l, seg: 0 }, 24);
        }
    }
    let mwhc_raw: &[(u64, u64)] = &[
        // (shift, seg)
        (63, 0), // seg_size = 0: default-constructed struct (and n = 0 before the fix of D20)
        (60, 0),
        (63, 1),
        (63, 2),
        (63, 410),
        (57, 5376),
        (63, 1_431_655_765), // 3 * seg = 2^32 - 1
        (63, 1_431_655_766), // 3 * seg > 2^32
        (32, 1_431_655_765), // h = 31
        (31, 1_431_655_765), // h = 32
        (0, 1),              // h = 63: 3 * 2^63
        (1, 1),              // h = 62
        (2, 1),              // h = 61: 3 * 2^61 < 2^64
        (64, 7),
        (63, 1 << 40),
        (63, 6_148_914_691_236_517_205), // 3 * seg = 2^64 - 1
        (63, 6_148_914_691_236_517_206), // 3 * seg overflows
        (63, u64::MAX),
    ];
    for lg in ALL.iter().copied().filter(|l| !l.is_fuse()) {
        for &(shift, seg) in mwhc_raw {
            raw_case(ctx, lg, P { shift, s: 0, l: 0, seg }, 24);
        }
    }
}

fn random_raw(ctx: &mut Ctx) {
    let lg = *ctx.rng.pick(&ALL);
    let rng = &mut ctx.rng;
    let in_domain = rng.chance(3, 4);
    let p = if lg.is_fuse() {
        // choose h, s, then l so that (l+2) * 2^s * 2^h is around the bound
        let h = if lg.sharded() { rng.below(64) } else { 0 };
        let vmax_bits = if lg.vertex_u32() { 32.min(64 - h) } else { 64 - h };
        let s = rng.below(vmax_bits.max(2));
        let room = if in_domain {
            ((1u128 << vmax_bits) >> s).min(1u128 << 32)
        } else {
            ((1u128 << (vmax_bits + 2).min(66)) >> s).min(1u128 << 32)
        } as u64;
        let l = match rng.below(4) {
            0 => room.saturating_sub(2 + rng.below(3)),
            1 => 1 + rng.below(4),
            _ => rng.below(room.max(1)),
        };
        let l = l.min(u32::MAX as u64);
        let (s, shift) = if in_domain {
            (s, 63 - h)
        } else {
            match rng.below(4) {
                0 => (s + 60, 63 - h),
                1 => (s, 63 - h + rng.below(3)),
                _ => (s, 63 - h),
            }
        };
        P { shift, s, l, seg: 0 }
    } else {
        let h = if lg.sharded() { rng.below(64) } else { 0 };
        let bits = if lg.vertex_u32() { 32.min(64 - h) } else { 64 - h };
        let seg = match rng.below(4) {
            0 => (((1u128 << bits) / 3) as u64).saturating_sub(rng.below(2)),
            1 => rng.below(5),
            _ => rng.next_u64() >> (64 - bits.max(1)).min(63),
        };
        let seg = if in_domain { seg / 3 } else { seg };
        P { shift: 63 - h, s: 0, l: 0, seg }
    };
    raw_case(ctx, lg, p, 12);
}

fn random_setup(ctx: &mut Ctx) {
    let lg = *ctx.rng.pick(&ALL);
    let n = random_n(&mut ctx.rng);
    let e = ctx.rng.usize_below(4);
    let shards = real_num_shards(lg, n, EPS[e]);
    let (a, b) = max_shards(n, shards);
    let ms = match ctx.rng.below(20) {
        0 => 0,                                    // malformed
        1 => n,                                    // malformed unless unsharded
        2 => ctx.rng.usize_below(2 * n.max(1) + 2), // malformed
        3..=10 => a,
        11..=17 => b,
        _ => a + ctx.rng.usize_below(b - a + 1),
    };
    setup_case(ctx, lg, n, e, ms, 8, false);
}

pub fn run(ctx: &mut Ctx) {
    directed(ctx);
    // every n <= 5000 for every logic (quick: set-up, parameters, one signature with `edge` and
    // `check`; thorough: twelve signatures with every query)
    let quick = ctx.tier == Tier::Quick;
    let budget = if quick { 1 } else { 12 };
    for lg in ALL {
        for n in 0..=5000 {
            all_setups(ctx, lg, n, budget, quick, false);
        }
    }
    let rounds = if quick { 1500 } else { 20000 };
    for _ in 0..rounds {
        if ctx.rng.chance(1, 4) {
            random_raw(ctx);
        } else {
            random_setup(ctx);
        }
    }
}

/// re-execute the ops of a replay file
pub fn replay(ctx: &mut Ctx, lines: &[String]) {
    let mut st = fresh();
    for l in lines {
        if l.starts_with("case ") {
            ctx.op(l);
            ctx.reply("case");
            st = fresh();
        } else {
            exec(ctx, &mut st, l);
        }
    }
}
