//! Runner `ef`: Elias–Fano builders, selection back-ends and queries (C03, C04; parts for C11/C12).
//!
//! ops (see `lean/SuxModel/EF/Runner.lean` for the reply grammar):
//!   `builder n u` `push v` `extend [..]` `from_slice [..]` `cbuilder n u` `cset i v`
//!   `build <plain|seq|dict|seqdict|custom1|custom2>`
//!   `len` `parts` `get i` `iter` `into_iter` `iter_from k` `into_iter_from k`
//!   `index_of q` `contains q` `succ q` `succ_strict q` `pred q` `pred_strict q`
//!   `succ_unchecked q` `succ_strict_unchecked q` `pred_unchecked q` `pred_strict_unchecked q`
//!   `iter_proto k j` (`EliasFanoIterator::new` / `new_from(k)` called directly, then `nth(j)`, `len`,
//!   `count`; `last` of a second iterator)   `estimate_size u n` (associated function, stateless)
//!
//! back-ends: plain = `EliasFano` (iteration only), seq = `build_with_seq`, dict =
//! `build_with_dict`, seqdict = `build_with_seq_and_dict`, custom1 =
//! `SelectZeroAdapt(SelectAdapt(AddNumBits(bits), 3), 3)`, custom2 =
//! `SelectZeroAdapt(Select9(Rank9(bits)), 3)`, custom3 = the `Const<5, 3>` pair (small inventories),
//! custom4 = seqdict whose lower bits went through `map_low_bits` into a `BitFieldVec<usize, Vec<usize>>`.
//!
//! Duplicates: for `index_of`/`succ`/`pred` the reply is `<canonical>|<raw index>`; the canonical
//! part is the value and whether the returned index is valid and holds it (computed from the
//! oracle's list).  The naive oracle is compared on the canonical part only; implementation
//! and model are compared on the whole line (the model mirrors the scan order).
//!
//! Abort avoidance: queries are issued only on structures whose construction obeyed the safety
//! contract (monotone values ≤ u, every index set once); `*_unchecked` queries only when the
//! oracle says the answer exists.  (Since the fix "an empty Elias-Fano sequence allocated u + 1
//! upper bits" `n = 0` is generated with every `u` up to `usize::MAX`.)
use crate::common::*;
use sux::dict::elias_fano::{EfDict, EfSeq, EfSeqDict, EliasFanoIterator};
use sux::prelude::*;

type BVB = BitVec<Box<[usize]>>;
type Plain = EliasFano;
type C1 = EliasFano<SelectZeroAdapt<SelectAdapt<AddNumBits<BVB>>>>;
type C2 = EliasFano<SelectZeroAdapt<Select9<Rank9<BVB>>>>;
/// small inventories: every one of a span is recorded (quantum 1), so span-class boundaries matter
type C3 = EliasFano<SelectZeroAdaptConst<SelectAdaptConst<BVB, Box<[usize]>, 5, 3>, Box<[usize]>, 5, 3>>;

/// low bits moved into a `Vec`-backed bit-field vector through `map_low_bits`
type C4 = EliasFano<
    SelectZeroAdaptConst<SelectAdaptConst<BVB, Box<[usize]>, 12, 3>, Box<[usize]>, 12, 3>,
    BitFieldVec<usize, Vec<usize>>,
>;

enum Ef {
    Plain(Plain),
    Seq(EfSeq),
    Dict(EfDict),
    SeqDict(EfSeqDict),
    C1(C1),
    C2(C2),
    C3(C3),
    C4(C4),
}

enum Ph {
    Empty,
    Seq(EliasFanoBuilder),
    Conc(EliasFanoConcurrentBuilder),
    Raw(Plain),
    Built(Ef),
}

struct S {
    ph: Ph,
    n: usize,
    u: usize,
    /// values accepted by the sequential builder so far
    acc: Vec<usize>,
    /// concurrent builder: values set at every index so far
    cvals: Vec<Vec<usize>>,
    /// concurrent builder: some `cset` failed half-way
    cbroken: bool,
    /// after `build`: the sequence, if the structure was built within the safety contract
    xs: Option<Vec<usize>>,
}

fn fresh() -> S {
    S {
        ph: Ph::Empty,
        n: 0,
        u: 0,
        acc: vec![],
        cvals: vec![],
        cbroken: false,
        xs: None,
    }
}

macro_rules! with_any {
    ($ef:expr, $e:ident => $body:expr) => {
        match $ef {
            Ef::Plain($e) => $body,
            Ef::Seq($e) => $body,
            Ef::Dict($e) => $body,
            Ef::SeqDict($e) => $body,
            Ef::C1($e) => $body,
            Ef::C2($e) => $body,
            Ef::C3($e) => $body,
            Ef::C4($e) => $body,
        }
    };
}
macro_rules! with_seq {
    ($ef:expr, $e:ident => $body:expr) => {
        match $ef {
            Ef::Seq($e) => Some($body),
            Ef::SeqDict($e) => Some($body),
            Ef::C1($e) => Some($body),
            Ef::C2($e) => Some($body),
            Ef::C3($e) => Some($body),
            Ef::C4($e) => Some($body),
            _ => None,
        }
    };
}
macro_rules! with_dict {
    ($ef:expr, $e:ident => $body:expr) => {
        match $ef {
            Ef::Dict($e) => Some($body),
            Ef::SeqDict($e) => Some($body),
            Ef::C1($e) => Some($body),
            Ef::C2($e) => Some($body),
            Ef::C3($e) => Some($body),
            Ef::C4($e) => Some($body),
            _ => None,
        }
    };
}
macro_rules! with_both {
    ($ef:expr, $e:ident => $body:expr) => {
        match $ef {
            Ef::SeqDict($e) => Some($body),
            Ef::C1($e) => Some($body),
            Ef::C2($e) => Some($body),
            Ef::C3($e) => Some($body),
            Ef::C4($e) => Some($body),
            _ => None,
        }
    };
}

fn parts_of<H: AsRef<[usize]> + BitLength, LB: AsRef<[usize]>>(
    e: &EliasFano<H, BitFieldVec<usize, LB>>,
) -> String {
    let (n, u, l, low, high) = e.verif_parts();
    let hw: &[usize] = high.as_ref();
    format!(
        "ok {} {} {} {}:{}:{} {}:{}",
        n,
        u,
        l,
        BitFieldSliceCore::<usize>::len(low),
        BitFieldSliceCore::<usize>::bit_width(low),
        fmt_list(low.as_slice().iter()),
        BitLength::len(high),
        fmt_list(hw.iter())
    )
}

/// independent computation of the representation: bit by bit
fn naive_parts(n: usize, u: usize, xs: &[usize]) -> String {
    let mut l = 0usize;
    let m = std::cmp::max(n, 1);
    if u >= m {
        let q = u / m;
        while l < 63 && (q >> (l + 1)) > 0 {
            l += 1;
        }
    }
    let hlen = n + (u >> l) + 1;
    let mut high = vec![0u64; hlen.div_ceil(64)];
    let mut low = vec![0u64; std::cmp::max(1, (n * l).div_ceil(64))];
    for (i, &x) in xs.iter().enumerate() {
        let p = (x >> l) + i;
        high[p / 64] |= 1u64 << (p % 64);
        for j in 0..l {
            if (x >> j) & 1 == 1 {
                let b = i * l + j;
                low[b / 64] |= 1u64 << (b % 64);
            }
        }
    }
    format!(
        "ok {} {} {} {}:{}:{} {}:{}",
        n,
        u,
        l,
        n,
        l,
        fmt_list(low),
        hlen,
        fmt_list(high)
    )
}

/// `2n + n * ceil(log2(u / n))` in exact integer arithmetic (the smallest `k` with `u <= n 2^k`),
/// `0` for `n = 0` (`0 * saturated`), checked arithmetic as in the dev profile
fn oracle_estimate(u: usize, n: usize) -> String {
    if n == 0 {
        return "ok 0".into();
    }
    let mut k = 0u32;
    while (u as u128) > (n as u128) << k {
        k += 1;
    }
    match n.checked_mul(k as usize).and_then(|x| n.checked_mul(2).and_then(|y| y.checked_add(x))) {
        Some(v) => format!("ok {}", v),
        None => "panic".into(),
    }
}

/// `(u, n)` pairs whose `f64` quotient is far from (or exactly at) a power of two
fn gen_estimate(ctx: &mut Ctx) -> (usize, usize) {
    let n = match ctx.rng.below(6) {
        0 => 0,
        1 => 1,
        2 => 1usize << ctx.rng.below(40),
        3 => 3 * (1usize << ctx.rng.below(30)),
        _ => 1 + ctx.rng.usize_below(1_000_000),
    };
    if n == 0 {
        return (ctx.rng.next_u64() as usize >> ctx.rng.below(64), 0);
    }
    let k = ctx.rng.below(62 - (usize::BITS - n.leading_zeros()) as u64 + 1) as u32;
    let base = n << k; // u / n = 2^k exactly (n, u < 2^62, n has at most 40 significant bits: exact in f64 when n < 2^53)
    let u = match ctx.rng.below(6) {
        0 => base,
        // 25 % / 50 % above a power of two: the quotient is nowhere near a rounding boundary
        1 => base + base / 4,
        2 => base + base / 2,
        3 => ctx.rng.usize_below(n + 1), // u <= n: the logarithm is <= 0
        4 => 0,
        _ => base + base / 2 + ctx.rng.usize_below(base / 4 + 1),
    };
    (u, n)
}

fn parse_list(s: &str) -> Vec<usize> {
    s[1..s.len() - 1]
        .split(',')
        .filter(|x| !x.is_empty())
        .map(|x| x.parse().unwrap())
        .collect()
}

/// collect an iterator, observing `len()` / `size_hint()` before every `next`
fn drain<I: ExactSizeIterator<Item = usize>>(mut it: I, bound: usize) -> (String, bool) {
    let mut vals = vec![];
    let mut lens = vec![];
    let mut hint_ok = true;
    loop {
        let l = it.len();
        if it.size_hint() != (l, Some(l)) {
            hint_ok = false;
        }
        lens.push(l);
        match it.next() {
            Some(v) => vals.push(v),
            None => break,
        }
        if vals.len() > bound + 2 {
            break;
        }
    }
    (format!("ok {} {}", fmt_list(vals), fmt_list(lens)), hint_ok)
}

fn oracle_iter(xs: &[usize], k: usize) -> String {
    let n = xs.len();
    format!(
        "ok {} {}",
        fmt_list(xs[k..].iter()),
        fmt_list((0..=(n - k)).rev())
    )
}

/// canonical text for an `(index, value)` answer
fn canon(xs: &[usize], i: usize, x: usize) -> String {
    let holds = i < xs.len() && xs[i] == x;
    format!("{} {}|{}", x, b01(holds), i)
}

fn fmt_pair(xs: &[usize], r: Option<(usize, usize)>) -> String {
    match r {
        None => "ok none".into(),
        Some((i, x)) => format!("ok some {}", canon(xs, i, x)),
    }
}

fn o_succ(xs: &[usize], q: usize, strict: bool) -> Option<usize> {
    xs.iter()
        .copied()
        .find(|&x| if strict { x > q } else { x >= q })
}

fn o_pred(xs: &[usize], q: usize, strict: bool) -> Option<usize> {
    xs.iter()
        .rev()
        .copied()
        .find(|&x| if strict { x < q } else { x <= q })
}

fn o_opt(v: Option<usize>) -> String {
    match v {
        None => "ok none".into(),
        Some(x) => format!("ok some {} 1", x),
    }
}

fn canon_part(s: &str) -> &str {
    s.split('|').next().unwrap()
}

fn build_backend(ef: Plain, be: &str) -> Ef {
    unsafe {
        match be {
            "plain" => Ef::Plain(ef),
            "seq" => Ef::Seq(ef.map_high_bits(SelectAdaptConst::<_, _, 12, 3>::new)),
            "dict" => Ef::Dict(ef.map_high_bits(SelectZeroAdaptConst::<_, _, 12, 3>::new)),
            "seqdict" => Ef::SeqDict(
                ef.map_high_bits(SelectAdaptConst::<_, _, 12, 3>::new)
                    .map_high_bits(SelectZeroAdaptConst::<_, _, 12, 3>::new),
            ),
            "custom1" => Ef::C1(ef.map_high_bits(|b| {
                SelectZeroAdapt::new(SelectAdapt::new(AddNumBits::from(b), 3), 3)
            })),
            "custom2" => Ef::C2(
                ef.map_high_bits(|b| SelectZeroAdapt::new(Select9::new(Rank9::new(b)), 3)),
            ),
            "custom3" => Ef::C3(
                ef.map_high_bits(SelectAdaptConst::<_, _, 5, 3>::new)
                    .map_high_bits(SelectZeroAdaptConst::<_, _, 5, 3>::new),
            ),
            // `map_low_bits`: the same values in a `Vec`-backed bit-field vector (plus one spare
            // word of garbage capacity-wise: `into()` keeps the words as they are)
            "custom4" => Ef::C4(
                ef.map_low_bits(|l| -> BitFieldVec<usize, Vec<usize>> { l.into() })
                    .map_high_bits(SelectAdaptConst::<_, _, 12, 3>::new)
                    .map_high_bits(SelectZeroAdaptConst::<_, _, 12, 3>::new),
            ),
            _ => panic!("unknown backend"),
        }
    }
}

/// execute one op on the implementation and on the oracle; emit op + reply
fn exec(ctx: &mut Ctx, s: &mut S, op: &str) {
    ctx.op(op);
    let t: Vec<&str> = op.split(' ').collect();
    let num = |i: usize| -> usize { t[i].parse::<usize>().unwrap() };
    // (implementation reply, oracle reply or None when the oracle has no opinion)
    let (res, ores): (String, Option<String>) = match t[0] {
        "builder" | "cbuilder" => {
            let (n, u) = (num(1), num(2));
            *s = fresh();
            s.n = n;
            s.u = u;
            let l = if u >= n.max(1) { (u / n.max(1)).ilog2() as usize } else { 0 };
            let o = match n.checked_add(u >> l).and_then(|x| x.checked_add(1)) {
                Some(_) => "ok",
                None => "panic",
            };
            let r = if t[0] == "builder" {
                match catch(|| EliasFanoBuilder::new(n, u)) {
                    Some(b) => {
                        s.ph = Ph::Seq(b);
                        "ok"
                    }
                    None => "panic",
                }
            } else {
                s.cvals = vec![vec![]; n];
                match catch(|| EliasFanoConcurrentBuilder::new(n, u)) {
                    Some(b) => {
                        s.ph = Ph::Conc(b);
                        "ok"
                    }
                    None => "panic",
                }
            };
            (r.into(), Some(o.into()))
        }
        "estimate_size" => {
            // associated function: no state involved.  The generator only sends (u, n) for which
            // `ceil(log2(u as f64 / n as f64))` does not depend on how the quotient or the
            // logarithm is rounded (see `gen_estimate`), so that integer arithmetic is an oracle
            let (u, n) = (num(1), num(2));
            let r = match catch(|| Plain::estimate_size(u, n)) {
                Some(v) => format!("ok {}", v),
                None => "panic".into(),
            };
            (r, Some(oracle_estimate(u, n)))
        }
        "push" => {
            let v = num(1);
            let last = s.acc.last().copied().unwrap_or(0);
            let o = if s.acc.len() == s.n || v > s.u || v < last {
                "panic"
            } else {
                s.acc.push(v);
                "ok"
            };
            let r = match &mut s.ph {
                Ph::Seq(b) => match catch(|| b.push(v)) {
                    Some(_) => "ok",
                    None => "panic",
                },
                _ => unreachable!("push without builder"),
            };
            (r.into(), Some(o.into()))
        }
        "push_unchecked" => {
            // only emitted when the documented contract holds (fewer than n values so far,
            // value <= u and >= the last value): then it behaves like an accepted push
            let v = num(1);
            let last = s.acc.last().copied().unwrap_or(0);
            assert!(s.acc.len() < s.n && v <= s.u && v >= last, "generator bug: push_unchecked contract");
            s.acc.push(v);
            let r = match &mut s.ph {
                Ph::Seq(b) => match catch(|| unsafe { b.push_unchecked(v) }) {
                    Some(_) => "ok",
                    None => "panic",
                },
                _ => unreachable!("push_unchecked without builder"),
            };
            (r.into(), Some("ok".into()))
        }
        "extend" => {
            let vs = parse_list(t[1]);
            let mut o = "ok";
            for &v in &vs {
                let last = s.acc.last().copied().unwrap_or(0);
                if s.acc.len() == s.n || v > s.u || v < last {
                    o = "panic";
                    break;
                }
                s.acc.push(v);
            }
            let r = match &mut s.ph {
                Ph::Seq(b) => match catch(|| b.extend(vs.iter().copied())) {
                    Some(_) => "ok",
                    None => "panic",
                },
                _ => unreachable!("extend without builder"),
            };
            (r.into(), Some(o.into()))
        }
        "from_slice" => {
            let vs = parse_list(t[1]);
            *s = fresh();
            let mono = vs.windows(2).all(|w| w[0] <= w[1]);
            let o = if mono {
                s.n = vs.len();
                s.u = vs.iter().copied().max().unwrap_or(0);
                s.xs = Some(vs.clone());
                "ok"
            } else {
                "panic"
            };
            let r = match catch(|| Plain::from(&vs)) {
                Some(e) => {
                    s.ph = Ph::Raw(e);
                    "ok"
                }
                None => "panic",
            };
            (r.into(), Some(o.into()))
        }
        "cset" => {
            let (i, v) = (num(1), num(2));
            assert!(i < s.n, "cset index out of range would be an unchecked write");
            let r = match &s.ph {
                Ph::Conc(b) => match catch(|| unsafe { b.set(i, v) }) {
                    Some(_) => "ok",
                    None => "panic",
                },
                _ => unreachable!("cset without cbuilder"),
            };
            s.cvals[i].push(v);
            if r != "ok" {
                s.cbroken = true;
            }
            (r.into(), None)
        }
        "build" => {
            let be = t[1];
            let ph = std::mem::replace(&mut s.ph, Ph::Empty);
            match ph {
                Ph::Seq(b) => {
                    let o = if s.acc.len() == s.n { "ok" } else { "panic" };
                    let r = match catch(move || match be {
                        "plain" => Ef::Plain(b.build()),
                        "seq" => Ef::Seq(b.build_with_seq()),
                        "dict" => Ef::Dict(b.build_with_dict()),
                        "seqdict" => Ef::SeqDict(b.build_with_seq_and_dict()),
                        _ => build_backend(b.build(), be),
                    }) {
                        Some(e) => {
                            s.ph = Ph::Built(e);
                            s.xs = Some(s.acc.clone());
                            "ok"
                        }
                        None => "panic",
                    };
                    (r.into(), Some(o.into()))
                }
                Ph::Conc(b) => {
                    // valid iff every index was set exactly once, values ≤ u, monotone in the index
                    let once = s.cvals.iter().all(|v| v.len() == 1);
                    let mut valid = once && !s.cbroken;
                    if valid {
                        let xs: Vec<usize> = s.cvals.iter().map(|v| v[0]).collect();
                        valid = xs.windows(2).all(|w| w[0] <= w[1]) && xs.iter().all(|&x| x <= s.u);
                        if valid {
                            s.xs = Some(xs);
                        }
                    }
                    let r = match catch(move || match be {
                        "plain" => Ef::Plain(b.build()),
                        "seq" => Ef::Seq(b.build_with_seq()),
                        "dict" => Ef::Dict(b.build_with_dict()),
                        "seqdict" => Ef::SeqDict(b.build_with_seq_and_dict()),
                        _ => build_backend(b.build(), be),
                    }) {
                        Some(e) => {
                            s.ph = Ph::Built(e);
                            "ok"
                        }
                        None => "panic",
                    };
                    (r.into(), Some("ok".into()))
                }
                Ph::Raw(e) => {
                    let r = match catch(move || build_backend(e, be)) {
                        Some(e) => {
                            s.ph = Ph::Built(e);
                            "ok"
                        }
                        None => "panic",
                    };
                    (r.into(), Some("ok".into()))
                }
                _ => unreachable!("build without builder"),
            }
        }
        _ => {
            let ef = match &s.ph {
                Ph::Built(e) => e,
                _ => unreachable!("query without structure"),
            };
            let valid = s.xs.is_some();
            let empty: Vec<usize> = vec![];
            let xs: &Vec<usize> = s.xs.as_ref().unwrap_or(&empty);
            let n = s.n;
            // only `len` and `parts` are safe on a structure built outside the contract
            assert!(valid || t[0] == "len" || t[0] == "parts", "query on an invalid structure");
            match t[0] {
                "len" => {
                    // the inherent method shadows `IndexedSeq::len`: call the trait method too
                    if let Some(tl) = with_seq!(ef, e => IndexedSeq::len(e)) {
                        if tl != n {
                            ctx.check_oracle(&format!("IndexedSeq::len = {}", n), &format!("IndexedSeq::len = {}", tl));
                        }
                    }
                    (
                        with_any!(ef, e => format!("ok {}", e.len())),
                        Some(format!("ok {}", n)),
                    )
                }
                "parts" => (
                    with_any!(ef, e => parts_of(e)),
                    if valid { Some(naive_parts(n, s.u, xs)) } else { None },
                ),
                "iter" | "into_iter" => {
                    let into = t[0] == "into_iter";
                    let r = with_any!(ef, e => catch(|| if into { drain(e.into_iter(), n) } else { drain(e.iter(), n) }));
                    match r {
                        Some((r, hint)) => {
                            if !hint {
                                ctx.check_oracle("size_hint = (len, Some(len))", "size_hint differs from len()");
                            }
                            (r, Some(oracle_iter(xs, 0)))
                        }
                        None => ("panic".into(), Some(oracle_iter(xs, 0))),
                    }
                }
                "iter_from" | "into_iter_from" => {
                    let k = num(1);
                    let into = t[0] == "into_iter_from";
                    let o = if k <= n { oracle_iter(xs, k) } else { "panic".into() };
                    let r = with_seq!(ef, e => catch(|| if into { drain(e.into_iter_from(k), n) } else { drain(e.iter_from(k), n) }));
                    match r {
                        None => ("na".into(), None),
                        Some(None) => ("panic".into(), Some(o)),
                        Some(Some((r, hint))) => {
                            if !hint {
                                ctx.check_oracle("size_hint = (len, Some(len))", "size_hint differs from len()");
                            }
                            (r, Some(o))
                        }
                    }
                }
                "iter_proto" => {
                    // the explicit constructors `EliasFanoIterator::{new, new_from}` and the
                    // iterator-protocol methods that are not used by a plain drain: `nth(j)`,
                    // then `len()` / `size_hint()`, then `count()`; `last()` on a fresh iterator
                    let (k, j) = (num(1), num(2));
                    let fmt_o = |v: Option<usize>| match v {
                        Some(x) => x.to_string(),
                        None => "none".to_string(),
                    };
                    let o = if k <= n {
                        let rest = &xs[k..];
                        let left = rest.len() - Ord::min(rest.len(), j.saturating_add(1));
                        format!(
                            "ok {} {} {} {}",
                            fmt_o(rest.get(j).copied()),
                            left,
                            left,
                            fmt_o(rest.last().copied())
                        )
                    } else {
                        "panic".into()
                    };
                    macro_rules! proto {
                        ($mk:expr) => {{
                            let mut it = $mk;
                            let a = it.nth(j);
                            let l = it.len();
                            let hint_ok = it.size_hint() == (l, Some(l));
                            let c = it.count();
                            let last = $mk.last();
                            (format!("ok {} {} {} {}", fmt_o(a), l, c, fmt_o(last)), hint_ok)
                        }};
                    }
                    let r: Option<Option<(String, bool)>> = if k == 0 {
                        Some(with_any!(ef, e => catch(|| proto!(EliasFanoIterator::new(e)))))
                    } else {
                        with_seq!(ef, e => catch(|| proto!(EliasFanoIterator::new_from(e, k))))
                    };
                    match r {
                        None => ("na".into(), None),
                        Some(None) => ("panic".into(), Some(o)),
                        Some(Some((r, hint))) => {
                            if !hint {
                                ctx.check_oracle("size_hint = (len, Some(len))", "size_hint differs from len()");
                            }
                            (r, Some(o))
                        }
                    }
                }
                "get" => {
                    let i = num(1);
                    let o = if i < n { format!("ok {}", xs[i]) } else { "panic".into() };
                    match with_seq!(ef, e => catch(|| e.get(i))) {
                        None => ("na".into(), None),
                        Some(None) => ("panic".into(), Some(o)),
                        Some(Some(v)) => (format!("ok {}", v), Some(o)),
                    }
                }
                "index_of" => {
                    let q = num(1);
                    let o = if xs.contains(&q) { format!("ok some {} 1", q) } else { "ok none".into() };
                    match with_dict!(ef, e => catch(|| e.index_of(q))) {
                        None => ("na".into(), None),
                        Some(None) => ("panic".into(), Some(o)),
                        Some(Some(None)) => ("ok none".into(), Some(o)),
                        Some(Some(Some(i))) => {
                            let r = if i < n {
                                format!("ok some {} {}|{}", xs[i], b01(xs[i] == q), i)
                            } else {
                                format!("ok some - 0|{}", i)
                            };
                            (r, Some(o))
                        }
                    }
                }
                "contains" => {
                    let q = num(1);
                    let o = format!("ok {}", b01(xs.contains(&q)));
                    match with_dict!(ef, e => catch(|| e.contains(q))) {
                        None => ("na".into(), None),
                        Some(None) => ("panic".into(), Some(o)),
                        Some(Some(b)) => (format!("ok {}", b01(b)), Some(o)),
                    }
                }
                "succ" | "succ_strict" | "pred" | "pred_strict" => {
                    let q = num(1);
                    let o = o_opt(match t[0] {
                        "succ" => o_succ(xs, q, false),
                        "succ_strict" => o_succ(xs, q, true),
                        "pred" => o_pred(xs, q, false),
                        _ => o_pred(xs, q, true),
                    });
                    let r = with_both!(ef, e => catch(|| match t[0] {
                        "succ" => e.succ(q),
                        "succ_strict" => e.succ_strict(q),
                        "pred" => e.pred(q),
                        _ => e.pred_strict(q),
                    }));
                    match r {
                        None => ("na".into(), None),
                        Some(None) => ("panic".into(), Some(o)),
                        Some(Some(p)) => (fmt_pair(xs, p), Some(o)),
                    }
                }
                "succ_unchecked" | "succ_strict_unchecked" | "pred_unchecked"
                | "pred_strict_unchecked" => {
                    let q = num(1);
                    let ov = match t[0] {
                        "succ_unchecked" => o_succ(xs, q, false),
                        "succ_strict_unchecked" => o_succ(xs, q, true),
                        "pred_unchecked" => o_pred(xs, q, false),
                        _ => o_pred(xs, q, true),
                    };
                    let ov = ov.expect("unchecked query without an answer would be undefined behaviour");
                    let o = format!("ok {} 1", ov);
                    let r = with_dict!(ef, e => catch(|| unsafe { match t[0] {
                        "succ_unchecked" => e.succ_unchecked::<false>(q),
                        "succ_strict_unchecked" => e.succ_unchecked::<true>(q),
                        "pred_unchecked" => e.pred_unchecked::<false>(q),
                        _ => e.pred_unchecked::<true>(q),
                    }}));
                    match r {
                        None => ("na".into(), None),
                        Some(None) => ("panic".into(), Some(o)),
                        Some(Some((i, x))) => (format!("ok {}", canon(xs, i, x)), Some(o)),
                    }
                }
                x => panic!("unknown op {}", x),
            }
        }
    };
    if let Some(o) = ores {
        // duplicates: only the canonical part (before `|`) is what the property speaks about
        ctx.check_oracle(&o, canon_part(&res));
    }
    ctx.reply(&res);
}

// ------------------------------------------------------------------------------------ generator

const BACKENDS: &[&str] = &["plain", "seq", "dict", "seqdict", "custom1", "custom2", "custom3", "custom4"];
const M: usize = usize::MAX;

fn gen_n(ctx: &mut Ctx) -> usize {
    match ctx.rng.below(40) {
        0..=2 => 0,
        3..=6 => 1,
        7..=8 => 2,
        9 => 3,
        10..=17 => 4 + ctx.rng.usize_below(30),
        18..=21 => *ctx.rng.pick(&[63usize, 64, 65, 127, 128, 129, 191, 192, 193, 255, 256, 257]),
        22..=35 => 34 + ctx.rng.usize_below(270),
        36..=38 => 300 + ctx.rng.usize_below(700),
        _ => 1000 + ctx.rng.usize_below(4000),
    }
}

fn gen_u(ctx: &mut Ctx, n: usize) -> usize {
    if n == 0 {
        // an empty sequence is treated like a one-element one: every u is cheap
        return match ctx.rng.below(8) {
            0 => 0,
            1 => 1,
            2 => 63 + ctx.rng.usize_below(3),
            3 => ctx.rng.usize_below(70000),
            4 => M - ctx.rng.usize_below(1025),
            5 => M,
            6 => 1usize << ctx.rng.below(64),
            _ => ctx.rng.next_u64() as usize >> ctx.rng.below(64),
        };
    }
    let maxk = 63 - (n.ilog2() as usize) - if n.is_power_of_two() { 0 } else { 1 };
    match ctx.rng.below(20) {
        0 => n - 1,
        1 => ctx.rng.usize_below(n),
        2 => n,
        3 => 0,
        4..=9 => {
            // u / n at 2^k - 1, 2^k, 2^k + 1 (and just below the next power)
            let k = ctx.rng.usize_below(maxk + 1);
            let base = n << k;
            match ctx.rng.below(5) {
                0 => base - 1,
                1 => base,
                2 => base + (n - 1).min(M - base),
                3 => base.saturating_add(n),
                _ => base.saturating_add(n).saturating_sub(1),
            }
        }
        10 | 11 => M - ctx.rng.usize_below(1025),
        12 => M,
        13 | 14 => ctx.rng.next_u64() as usize >> ctx.rng.below(64),
        15 | 16 => n + ctx.rng.usize_below(3 * n + 5),
        _ => n.saturating_mul(1 + ctx.rng.usize_below(5000)),
    }
}

/// a monotone sequence of `n` values in `0..=u`
fn gen_xs(ctx: &mut Ctx, n: usize, u: usize) -> (Vec<usize>, &'static str) {
    if n == 0 {
        return (vec![], "empty");
    }
    let below = |ctx: &mut Ctx, b: usize| -> usize {
        // uniform in 0..=b
        if b == M {
            ctx.rng.next_u64() as usize
        } else {
            ctx.rng.usize_below(b + 1)
        }
    };
    let mode = ctx.rng.below(10);
    let (mut xs, name): (Vec<usize>, &'static str) = match mode {
        0 | 1 | 2 => ((0..n).map(|_| below(ctx, u)).collect(), "uniform"),
        3 | 4 => {
            // long runs of duplicates
            let mut v = vec![];
            while v.len() < n {
                let x = below(ctx, u);
                let run = 1 + ctx.rng.usize_below(200);
                for _ in 0..run.min(n - v.len()) {
                    v.push(x);
                }
            }
            (v, "runs")
        }
        5 => {
            let x = match ctx.rng.below(3) {
                0 => 0,
                1 => u,
                _ => below(ctx, u),
            };
            (vec![x; n], "constant")
        }
        6 | 7 => {
            // two clusters separated by a long stretch of empty buckets
            let w = (u / 16).max(1);
            (
                (0..n)
                    .map(|_| {
                        if ctx.rng.bool() {
                            below(ctx, w.min(u))
                        } else {
                            u - below(ctx, w.min(u))
                        }
                    })
                    .collect(),
                "clusters",
            )
        }
        8 => {
            // dense prefix, then everything at the top
            let k = ctx.rng.usize_below(n + 1);
            (
                (0..n)
                    .map(|i| if i < k { i.min(u) } else { u - below(ctx, 3.min(u)) })
                    .collect(),
                "prefix-top",
            )
        }
        _ => {
            // few distinct values
            let d = 1 + ctx.rng.usize_below(4);
            let vals: Vec<usize> = (0..d).map(|_| below(ctx, u)).collect();
            ((0..n).map(|_| *ctx.rng.pick(&vals)).collect(), "few")
        }
    };
    xs.sort_unstable();
    if ctx.rng.bool() {
        xs[0] = 0;
    }
    if ctx.rng.bool() {
        xs[n - 1] = u;
    }
    (xs, name)
}

/// query points: 0, x_0 ± 1, sampled x_i and x_i ± 1, u, u + 1, usize::MAX, random
fn gen_queries(ctx: &mut Ctx, xs: &[usize], u: usize, count: usize) -> Vec<usize> {
    let mut qs = vec![0, u, u.saturating_add(1), M, M - 1, u.saturating_sub(1), 1];
    if let (Some(&a), Some(&b)) = (xs.first(), xs.last()) {
        qs.extend([a, a.saturating_sub(1), a.saturating_add(1), b, b.saturating_sub(1), b.saturating_add(1)]);
    }
    for _ in 0..count {
        if !xs.is_empty() && ctx.rng.chance(3, 4) {
            let x = xs[ctx.rng.usize_below(xs.len())];
            qs.push(match ctx.rng.below(3) {
                0 => x,
                1 => x.saturating_sub(1),
                _ => x.saturating_add(1),
            });
        } else {
            qs.push(match ctx.rng.below(3) {
                0 => ctx.rng.next_u64() as usize >> ctx.rng.below(64),
                1 => {
                    if u == M {
                        ctx.rng.next_u64() as usize
                    } else {
                        ctx.rng.usize_below(u + 1)
                    }
                }
                _ => u.saturating_add(ctx.rng.usize_below(3000)),
            });
        }
    }
    qs
}

/// all observations on a built, valid structure
fn observe(ctx: &mut Ctx, s: &mut S, qs: &[usize], idx: &[usize], full: bool) {
    exec(ctx, s, "len");
    exec(ctx, s, "parts");
    exec(ctx, s, if full { "iter" } else { "into_iter" });
    let xs = s.xs.clone().unwrap();
    for &i in idx {
        exec(ctx, s, &format!("get {}", i));
    }
    for (j, &k) in idx.iter().enumerate() {
        if k <= xs.len() + 1 {
            let name = if j % 2 == 0 { "iter_from" } else { "into_iter_from" };
            exec(ctx, s, &format!("{} {}", name, k));
        }
    }
    // iterator protocol (`nth`, `len`, `count`, `last`) through the explicit constructors
    let nn = xs.len();
    let starts: Vec<usize> = if full {
        vec![0, 1, nn / 2, nn.saturating_sub(1), nn, nn + 1]
    } else {
        vec![0, idx.get(4).copied().unwrap_or(0)]
    };
    for (a, &k) in starts.iter().enumerate() {
        let rest = nn.saturating_sub(k);
        let js: Vec<usize> = if full {
            vec![0, 1, rest.saturating_sub(1), rest, rest + 1, M]
        } else {
            vec![[0, rest / 2, rest.saturating_sub(1), rest][(a + qs.len()) % 4]]
        };
        let mut js = js;
        js.dedup();
        for j in js {
            exec(ctx, s, &format!("iter_proto {} {}", k, j));
        }
    }
    for (j, &q) in qs.iter().enumerate() {
        let ops: &[&str] = if full {
            &["index_of", "contains", "succ", "succ_strict", "pred", "pred_strict"]
        } else {
            match j % 3 {
                0 => &["index_of", "succ", "pred_strict"],
                1 => &["contains", "succ_strict", "pred"],
                _ => &["index_of", "pred", "succ"],
            }
        };
        for o in ops {
            exec(ctx, s, &format!("{} {}", o, q));
        }
        if full || j % 2 == 0 {
            if o_succ(&xs, q, false).is_some() {
                exec(ctx, s, &format!("succ_unchecked {}", q));
            }
            if o_succ(&xs, q, true).is_some() {
                exec(ctx, s, &format!("succ_strict_unchecked {}", q));
            }
            if o_pred(&xs, q, false).is_some() {
                exec(ctx, s, &format!("pred_unchecked {}", q));
            }
            if o_pred(&xs, q, true).is_some() {
                exec(ctx, s, &format!("pred_strict_unchecked {}", q));
            }
        }
    }
}

fn std_indices(n: usize) -> Vec<usize> {
    let mut v = vec![0, 1, n / 2, n.saturating_sub(1), n, n + 1, M, 63, 64, 65];
    v.dedup();
    v
}

/// one hand-written case: build `xs` over `(n, u)` with every back-end and ask everything
fn directed_case(ctx: &mut Ctx, n: usize, u: usize, xs: &[usize], mode: &str, qs_extra: &[usize]) {
    for be in BACKENDS {
        ctx.case();
        let mut s = fresh();
        match mode {
            "push" => {
                exec(ctx, &mut s, &format!("builder {} {}", n, u));
                for &x in xs {
                    exec(ctx, &mut s, &format!("push {}", x));
                }
            }
            "extend" => {
                exec(ctx, &mut s, &format!("builder {} {}", n, u));
                exec(ctx, &mut s, &format!("extend {}", fmt_list(xs.iter())));
            }
            "slice" => {
                exec(ctx, &mut s, &format!("from_slice {}", fmt_list(xs.iter())));
            }
            _ => {
                exec(ctx, &mut s, &format!("cbuilder {} {}", n, u));
                for i in (0..xs.len()).rev() {
                    exec(ctx, &mut s, &format!("cset {} {}", i, xs[i]));
                }
            }
        }
        exec(ctx, &mut s, &format!("build {}", be));
        if s.xs.is_none() {
            continue;
        }
        let mut qs = vec![0, 1, u, u.saturating_add(1), M];
        for &x in xs.iter().take(8).chain(xs.iter().rev().take(8)) {
            qs.extend([x, x.saturating_sub(1), x.saturating_add(1)]);
        }
        qs.extend_from_slice(qs_extra);
        qs.sort_unstable();
        qs.dedup();
        observe(ctx, &mut s, &qs, &std_indices(xs.len()), true);
        ctx.shape(format!("directed:{}:{}:{}:{}", n, u, mode, be));
    }
}

/// Sequences whose upper-bits vector has an inventory span (32 ones, back-end `custom3`; also
/// observed through the other back-ends) of exactly `span` bits, the last one of the span at offset
/// `span - 1`: 63 copies of 100, then `68 + span` twice, then a slow climb; n = 40000, u = 70000, l = 0
fn span_boundary_case(ctx: &mut Ctx, span: usize, bes: &[&str]) {
    let (n, u) = (40_000usize, 70_000usize);
    let mut xs: Vec<usize> = vec![100; 63];
    let b = 68 + span;
    for i in 63..n {
        xs.push(Ord::min(u, b + (i - 63) / 10));
    }
    for be in bes {
        ctx.case();
        let mut s = fresh();
        exec(ctx, &mut s, &format!("from_slice {}", fmt_list(xs.iter())));
        exec(ctx, &mut s, &format!("build {}", be));
        if s.xs.is_none() {
            continue;
        }
        exec(ctx, &mut s, "len");
        for i in [0usize, 31, 32, 62, 63, 64, 65, 95, 96, 97, n / 2, n - 1, n] {
            exec(ctx, &mut s, &format!("get {}", i));
        }
        exec(ctx, &mut s, "iter_from 62");
        exec(ctx, &mut s, "into_iter_from 64");
        for q in [99usize, 100, 101, b - 1, b, b + 1, u] {
            for o in ["succ", "pred", "index_of", "succ_strict", "pred_strict"] {
                exec(ctx, &mut s, &format!("{} {}", o, q));
            }
        }
        ctx.shape(format!("span-boundary:{}:{}", span, be));
    }
}

/// A sparse stretch inside a dense sequence: `off + stride * i` for i < 1024, then a run of equal
/// values long enough for l = 0, so that element i of the stretch is the one at bit
/// `off + (stride + 1) * i` of the upper bits: an inventory entry of 512 ones then spans exactly
/// `stride + 1` blocks of 512 bits (the 16..=127-block class of Select9's subinventories for
/// stride >= 15) and ends inside a block when `off` is not a multiple of 512.
fn stretch_case(ctx: &mut Ctx, stride: usize, off: usize, bes: &[&str]) {
    let mut xs: Vec<usize> = (0..1024).map(|i| off + stride * i).collect();
    let last = *xs.last().unwrap();
    xs.extend(std::iter::repeat(last).take(last + 600));
    let n = xs.len();
    for be in bes {
        ctx.case();
        let mut s = fresh();
        exec(ctx, &mut s, &format!("from_slice {}", fmt_list(xs.iter())));
        exec(ctx, &mut s, &format!("build {}", be));
        if s.xs.is_none() {
            continue;
        }
        exec(ctx, &mut s, "len");
        for i in (0..1040).step_by(37).chain(480..530).chain(1000..1030).chain([n - 1, n]) {
            exec(ctx, &mut s, &format!("get {}", i));
        }
        exec(ctx, &mut s, "iter_from 500");
        exec(ctx, &mut s, "into_iter_from 1010");
        for q in [off, off + stride * 500 + 1, off + stride * 511, off + stride * 512 - 1, last, last + 1] {
            for o in ["succ", "pred", "index_of"] {
                exec(ctx, &mut s, &format!("{} {}", o, q));
            }
        }
        ctx.shape(format!("stretch:{}:{}", stride, be));
    }
}

fn directed(ctx: &mut Ctx) {
    // `EliasFano::estimate_size` (an associated function: no structure needed)
    {
        ctx.case();
        let mut s = fresh();
        for (u, n) in [
            (0usize, 0usize), (5, 0), (M, 0), (0, 1), (1, 1), (2, 1), (3, 1), (4, 1), (10, 4), (16, 4), (24, 4),
            (3, 5), (5, 5), (1 << 40, 1), (1 << 62, 1 << 20), (3 << 40, 1 << 20), (1000, 1000), (999, 1000),
            // checked arithmetic: `2 * n` overflows
            (0, 1 << 63), (M, M),
        ] {
            exec(ctx, &mut s, &format!("estimate_size {} {}", u, n));
        }
        ctx.shape("directed:estimate_size".into());
    }
    // one descent between adjacent positions of a slice, at an even and at an odd position
    for ys in [vec![5usize, 3], vec![0, 5, 3, 7], vec![10, 20, 19, 40, 41], vec![1, 2, 3, 4, 5, 4], vec![1, 2, 3, 4, 3, 9, 9]] {
        ctx.case();
        let mut s = fresh();
        exec(ctx, &mut s, &format!("from_slice {}", fmt_list(ys.iter())));
        ctx.shape("slice-rejected:directed".into());
    }
    if ctx.tier == Tier::Quick {
        span_boundary_case(ctx, 65537, &["custom3", "seq"]);
        span_boundary_case(ctx, 65536, &["custom3"]);
    } else {
        for span in [65535usize, 65536, 65537, 65538] {
            span_boundary_case(ctx, span, BACKENDS);
        }
    }
    if ctx.tier == Tier::Quick {
        let r = 7 + ctx.rng.usize_below(57);
        for stride in [15usize, 31, r] {
            let off = 1 + ctx.rng.usize_below(511);
            stretch_case(ctx, stride, off, &["custom2"]);
        }
    } else {
        for stride in 7..=64usize {
            let off = if stride % 5 == 0 { 512 } else { 1 + ctx.rng.usize_below(511) };
            stretch_case(ctx, stride, off, if stride % 8 == 7 { BACKENDS } else { &["custom2", "plain"] });
        }
    }
    // the example of the documentation (D7: pred above u; D8: iter_from(len))
    directed_case(ctx, 4, 10, &[0, 2, 8, 10], "push", &[12, 1000, 6, 11]);
    directed_case(ctx, 4, 10, &[0, 2, 8, 10], "cset", &[12, 1000]);
    directed_case(ctx, 4, 10, &[0, 2, 8, 10], "slice", &[12]);
    // empty sequences (D6: n = 0 with u > 0)
    directed_case(ctx, 0, 0, &[], "push", &[]);
    directed_case(ctx, 0, 5, &[], "extend", &[3]);
    directed_case(ctx, 0, 200, &[], "cset", &[64, 128]);
    directed_case(ctx, 0, 0, &[], "slice", &[]);
    // empty sequences over every kind of universe (the upper bits must not depend on u)
    for u in [0usize, 1, 63, 64, 1 << 32, 1 << 63, M - 1, M] {
        directed_case(ctx, 0, u, &[], "push", &[u / 2, 64]);
        directed_case(ctx, 0, u, &[], "cset", &[u / 2]);
    }
    // singletons, universe up to usize::MAX (D6: l = 64 in floating point)
    directed_case(ctx, 1, 0, &[0], "push", &[]);
    directed_case(ctx, 1, M, &[M], "push", &[M - 1, 1 << 63, (1 << 63) - 1]);
    directed_case(ctx, 1, M, &[0], "extend", &[M - 1, 1 << 63]);
    directed_case(ctx, 1, M - 1023, &[1 << 63], "cset", &[M - 1023, M - 1024, M - 1022]);
    directed_case(ctx, 1, M, &[M], "slice", &[]);
    directed_case(ctx, 2, M, &[0, M], "push", &[1 << 62, 1 << 63]);
    directed_case(ctx, 3, M, &[M - 2, M - 1, M], "push", &[M - 3]);
    // u < n, u = n - 1, u = n
    directed_case(ctx, 5, 2, &[0, 0, 1, 2, 2], "push", &[]);
    directed_case(ctx, 5, 4, &[0, 1, 2, 3, 4], "extend", &[]);
    directed_case(ctx, 5, 5, &[5, 5, 5, 5, 5], "cset", &[]);
    directed_case(ctx, 3, 0, &[0, 0, 0], "push", &[]);
    // l = 0, duplicate runs crossing word boundaries, an empty bucket in the middle
    let mut v = vec![0; 70];
    v.extend(vec![1; 70]);
    v.extend(vec![3; 60]);
    directed_case(ctx, 200, 3, &v, "push", &[2]);
    directed_case(ctx, 200, 3, &v, "cset", &[2]);
    // l = 0 and more than two words of zeros between two groups (backward scan of `pred`)
    let mut v = vec![0; 50];
    v.extend(vec![150; 50]);
    directed_case(ctx, 100, 150, &v, "extend", &[149, 100, 64, 63, 65, 128, 127]);
    // long empty buckets with l > 0
    directed_case(ctx, 3, 1000, &[0, 5, 1000], "push", &[999, 255, 256, 257, 511, 512]);
    directed_case(ctx, 4, 1 << 40, &[1, 1 << 20, 1 << 39, 1 << 40], "slice", &[(1 << 39) + 1, (1 << 40) - 1]);
    // u / n at 2^k - 1, 2^k, 2^k + 1
    for (n, u) in [(8usize, 63usize), (8, 64), (8, 72), (8, 71), (3, 5), (3, 6), (3, 3 * 16 - 1), (3, 3 * 16)] {
        let xs: Vec<usize> = (0..n).map(|i| (i * u) / (n - 1)).collect();
        directed_case(ctx, n, u, &xs, "push", &[]);
    }
    // low bits of full width 63
    directed_case(ctx, 1, M, &[M >> 1], "push", &[(M >> 1) + 1, (M >> 1) - 1]);

    // malformed pushes: state must be unchanged, then the sequence completes normally
    ctx.case();
    let mut s = fresh();
    for o in [
        "builder 4 10", "push 11", "push 3", "push 2", "push 18446744073709551615", "push 3", "push 0",
        "push 10", "push 9", "push 11", "push 10", "push 10", "push 0", "build seqdict",
    ] {
        exec(ctx, &mut s, o);
    }
    observe(ctx, &mut s, &[0, 2, 3, 4, 9, 10, 11, M], &std_indices(4), true);
    ctx.shape("directed:malformed-push".into());
    // extend with a bad value in the middle keeps the prefix
    ctx.case();
    let mut s = fresh();
    for o in ["builder 5 100", "extend [1,2,50,40,60]", "extend [50,101]", "extend [60,100,100]", "build seqdict"] {
        exec(ctx, &mut s, o);
    }
    observe(ctx, &mut s, &[0, 1, 49, 50, 51, 100, 101], &std_indices(5), true);
    ctx.shape("directed:malformed-extend".into());
    // too few values (D22), surplus, overflow of the length of the upper bits, non-monotone slice
    for ops in [
        vec!["builder 3 10", "push 1", "build seq"],
        vec!["builder 3 10", "build plain"],
        vec!["builder 0 0", "push 0", "build plain", "len", "iter", "parts"],
        vec!["builder 0 18446744073709551615", "push 0", "build seqdict", "len", "parts", "iter"],
        vec!["from_slice [3,2]"],
        vec!["from_slice [0,5,5,4]"],
    ] {
        ctx.case();
        let mut s = fresh();
        for o in ops {
            exec(ctx, &mut s, o);
        }
    }
    ctx.shape("directed:malformed-build".into());
    // concurrent builder outside its contract: only the exported parts are observed
    for ops in [
        vec!["cbuilder 4 10", "cset 0 0", "cset 1 2", "cset 1 8", "cset 3 10", "build plain", "len", "parts"],
        vec!["cbuilder 4 10", "cset 3 0", "cset 0 10", "cset 2 2", "cset 1 8", "build seq", "len", "parts"],
        vec!["cbuilder 4 10", "cset 0 0", "cset 1 2", "cset 2 1000", "cset 3 10", "build plain", "len", "parts"],
        vec!["cbuilder 2 10", "cset 1 18446744073709551615", "build plain", "parts"],
    ] {
        ctx.case();
        let mut s = fresh();
        for o in ops {
            exec(ctx, &mut s, o);
        }
    }
    ctx.shape("directed:cset-misuse".into());
}

fn class_n(n: usize) -> &'static str {
    match n {
        0 => "0",
        1 => "1",
        2..=3 => "2-3",
        4..=63 => "<64",
        64..=299 => "<300",
        300..=999 => "<1000",
        _ => "big",
    }
}

fn random_case(ctx: &mut Ctx) {
    ctx.case();
    let mut s = fresh();
    let n = gen_n(ctx);
    let mut u = gen_u(ctx, n);
    let (mut xs, vname) = gen_xs(ctx, n, u);
    let be = *ctx.rng.pick(BACKENDS);
    let mode = ctx.rng.below(12);
    let mut mname = "push";
    let mut malformed = false;
    match mode {
        0..=3 => {
            // one push at a time, with rejected pushes in between
            exec(ctx, &mut s, &format!("builder {} {}", n, u));
            let inject = ctx.rng.chance(1, 3);
            let mix_unchecked = ctx.rng.chance(1, 3);
            for i in 0..n {
                if inject && ctx.rng.chance(1, 12) {
                    malformed = true;
                    let last = if i > 0 { xs[i - 1] } else { 0 };
                    let bad = match ctx.rng.below(4) {
                        0 if u < M => Some(u + 1),
                        1 if u < M => Some(M),
                        2 if last > 0 => Some(last - 1),
                        3 if last > 0 => Some(0),
                        _ => None,
                    };
                    if let Some(b) = bad {
                        ctx.stat("malformed:push");
                        exec(ctx, &mut s, &format!("push {}", b));
                    }
                }
                if mix_unchecked && ctx.rng.chance(1, 3) {
                    ctx.stat("push_unchecked");
                    exec(ctx, &mut s, &format!("push_unchecked {}", xs[i]));
                    // a checked push below the value just added must still be rejected
                    let lo = if i > 0 { xs[i - 1] } else { 0 };
                    if xs[i] > lo && ctx.rng.chance(1, 2) {
                        malformed = true;
                        ctx.stat("malformed:push-after-unchecked");
                        let b = lo + ctx.rng.usize_below(xs[i] - lo);
                        exec(ctx, &mut s, &format!("push {}", b));
                        exec(ctx, &mut s, &format!("extend [{}]", b));
                    }
                } else {
                    exec(ctx, &mut s, &format!("push {}", xs[i]));
                }
            }
            if ctx.rng.chance(1, 4) {
                malformed = true;
                ctx.stat("malformed:surplus");
                exec(ctx, &mut s, &format!("push {}", u));
            }
        }
        4 | 5 => {
            mname = "extend";
            exec(ctx, &mut s, &format!("builder {} {}", n, u));
            // in chunks, sometimes with a rejected value inside a chunk
            let mut i = 0;
            while i < n {
                let c = (1 + ctx.rng.usize_below(n)).min(n - i);
                let mut chunk: Vec<usize> = xs[i..i + c].to_vec();
                if ctx.rng.chance(1, 10) && u < M {
                    malformed = true;
                    ctx.stat("malformed:extend");
                    let at = ctx.rng.usize_below(c);
                    chunk.insert(at, u + 1);
                    exec(ctx, &mut s, &format!("extend {}", fmt_list(chunk.iter())));
                    // the prefix `chunk[..at]` has been accepted
                    i += at;
                } else {
                    exec(ctx, &mut s, &format!("extend {}", fmt_list(chunk.iter())));
                    i += c;
                }
            }
            if n == 0 {
                exec(ctx, &mut s, "extend []");
            }
        }
        6 | 7 => {
            mname = "slice";
            if ctx.rng.chance(1, 8) && n >= 2 && xs[0] != xs[n - 1] {
                // not monotone: rejected
                ctx.stat("malformed:slice");
                let mut ys = xs.clone();
                // either the two ends, or ONE descent between two adjacent positions (at any
                // position: a validation that looks at disjoint pairs, or only at every other
                // element, must still see it)
                let adj: Vec<usize> = (0..n - 1).filter(|&i| xs[i] != xs[i + 1]).collect();
                if ctx.rng.chance(2, 3) && !adj.is_empty() {
                    let i = *ctx.rng.pick(&adj);
                    ys.swap(i, i + 1);
                    ctx.stat(if i % 2 == 0 { "malformed:slice:adjacent-even" } else { "malformed:slice:adjacent-odd" });
                } else {
                    ys.swap(0, n - 1);
                }
                exec(ctx, &mut s, &format!("from_slice {}", fmt_list(ys.iter())));
                ctx.shape(format!("slice-rejected:{}", class_n(n)));
                return;
            }
            exec(ctx, &mut s, &format!("from_slice {}", fmt_list(xs.iter())));
            u = xs.last().copied().unwrap_or(0);
        }
        _ => {
            mname = "cset";
            exec(ctx, &mut s, &format!("cbuilder {} {}", n, u));
            let mut order: Vec<usize> = (0..n).collect();
            match ctx.rng.below(4) {
                0 => order.reverse(),
                1 => {
                    // evens then odds
                    order = (0..n).step_by(2).chain((1..n).step_by(2)).collect();
                }
                2 => {}
                _ => {
                    for i in (1..n).rev() {
                        let j = ctx.rng.usize_below(i + 1);
                        order.swap(i, j);
                    }
                }
            }
            for i in order {
                exec(ctx, &mut s, &format!("cset {} {}", i, xs[i]));
            }
        }
    }
    // too few values
    if mode <= 5 && n > 0 && ctx.rng.chance(1, 40) {
        // a fresh builder that stops early
        ctx.case();
        s = fresh();
        ctx.stat("malformed:too-few");
        exec(ctx, &mut s, &format!("builder {} {}", n, u));
        let k = ctx.rng.usize_below(n);
        exec(ctx, &mut s, &format!("extend {}", fmt_list(xs[..k].iter())));
        exec(ctx, &mut s, &format!("build {}", be));
        ctx.shape(format!("too-few:{}:{}", class_n(n), be));
        return;
    }
    exec(ctx, &mut s, &format!("build {}", be));
    if s.xs.is_none() {
        return;
    }
    xs = s.xs.clone().unwrap();
    let nq = if n > 1000 { 6 } else { 14 };
    let qs = gen_queries(ctx, &xs, u, nq);
    let mut idx = vec![0, n.saturating_sub(1), n, n + 1];
    for _ in 0..3 {
        idx.push(if n == 0 { 0 } else { ctx.rng.usize_below(n) });
    }
    if ctx.rng.chance(1, 8) {
        idx.push(M - ctx.rng.usize_below(2));
    }
    observe(ctx, &mut s, &qs, &idx, false);
    if ctx.rng.chance(1, 4) {
        let (eu, en) = gen_estimate(ctx);
        exec(ctx, &mut s, &format!("estimate_size {} {}", eu, en));
    }
    let l = if u >= n.max(1) { (u / n.max(1)).ilog2() as usize } else { 0 };
    let lc = match l {
        0 => "l0",
        1..=7 => "l<8",
        8..=31 => "l<32",
        32..=62 => "l<63",
        _ => "l63",
    };
    let uc = if u == M {
        "max"
    } else if u > M - 1025 {
        "top"
    } else if n > 0 && u < n {
        "u<n"
    } else {
        "mid"
    };
    let dup = xs.windows(2).filter(|w| w[0] == w[1]).count();
    let dc = if dup == 0 {
        "nodup"
    } else if dup * 2 > n {
        "dup+"
    } else {
        "dup"
    };
    ctx.shape(format!(
        "{}:{}:{}:{}:{}:{}:{}:{}",
        class_n(n),
        lc,
        uc,
        dc,
        vname,
        mname,
        be,
        if malformed { "m" } else { "v" }
    ));
}

pub fn run(ctx: &mut Ctx) {
    directed(ctx);
    let n = if ctx.tier == Tier::Quick { 700 } else { 7000 };
    for _ in 0..n {
        random_case(ctx);
    }
}

/// re-execute the ops of a replay file
pub fn replay(ctx: &mut Ctx, lines: &[String]) {
    let mut s = fresh();
    for l in lines {
        if l.starts_with("case ") {
            ctx.op(l);
            ctx.reply("case");
            s = fresh();
        } else {
            exec(ctx, &mut s, l);
        }
    }
}
