//! Runner `ranksel`: every rank / select structure of the crate, alone and nested, over generated
//! bit vectors including dirty backends (C01, C02, C12).
//!
//! ops:  `bits <len> <[words]>`                 set the bit vector (raw parts: stale tail bits and
//!                                              extra words are allowed)
//!       `bits_sparse <len> <nwords> <fill> <[p0,p1,…]>`
//!                                              huge vector stated sparsely: a backend of `nwords`
//!                                              words, all 0 (`fill` = 0) or all `usize::MAX`
//!                                              (`fill` = 1), in which the bits at the listed
//!                                              positions (strictly increasing, < 64 * nwords;
//!                                              positions >= len are stale bits) are flipped.
//!                                              After it, `parts` prints every list of more than
//!                                              4096 numbers as `#<length>:<hash>` (FNV-1a-style
//!                                              over the values as u64)
//!       `build <sid> <p1> <p2>`                build structure `sid` over the current bits
//!       `rank p` `rank_zero p` `num_ones` `num_zeros` `count_ones` `len` `index i`
//!       `select r` `select_zero r`             queries on the built structure
//! replies: `ok <v>` | `ok none` | `panic` | `na` (operation not offered by that structure)
use crate::common::*;
use sux::prelude::*;

type BV = BitVec<Vec<usize>>;
type AB = AddNumBits<BV>;

thread_local! {
    /// set while a `bits_sparse` vector is current: long lists in `parts` are printed as digests
    static DIGEST: std::cell::Cell<bool> = const { std::cell::Cell::new(false) };
}
/// lists longer than this are printed as `#<length>:<hash>` in digest mode
const LIST_MAX: usize = 4096;

trait AsU64 {
    fn as_u64(&self) -> u64;
}
impl AsU64 for usize {
    fn as_u64(&self) -> u64 {
        *self as u64
    }
}
impl AsU64 for u32 {
    fn as_u64(&self) -> u64 {
        *self as u64
    }
}
impl<T: AsU64> AsU64 for &T {
    fn as_u64(&self) -> u64 {
        (**self).as_u64()
    }
}

/// `fmt_list`, or in digest mode for long lists `#<length>:<h>` with
/// `h = (h ^ x) * 0x100000001b3` (wrapping, over u64) from `0xcbf29ce484222325`
fn fl<T: AsU64>(xs: impl IntoIterator<Item = T>) -> String {
    let it = xs.into_iter().map(|x| x.as_u64());
    if !DIGEST.with(|d| d.get()) {
        return fmt_list(it);
    }
    let mut head: Vec<u64> = vec![];
    let mut n = 0usize;
    let mut h: u64 = 0xcbf29ce484222325;
    for x in it {
        if n <= LIST_MAX {
            head.push(x);
        }
        n += 1;
        h = (h ^ x).wrapping_mul(0x100000001b3);
    }
    if n <= LIST_MAX {
        fmt_list(head)
    } else {
        format!("#{}:{}", n, h)
    }
}

/// exported internal arrays, outermost structure first, layers separated by " | "
pub trait P {
    fn parts(&self) -> String;
}
impl P for BV {
    fn parts(&self) -> String {
        String::new()
    }
}
impl P for AB {
    fn parts(&self) -> String {
        String::new()
    }
}
fn join(a: String, b: String) -> String {
    if b.is_empty() {
        a
    } else {
        format!("{} | {}", a, b)
    }
}
fn r9_parts<B>(r: &Rank9<B>) -> String {
    let c = r.verif_counts();
    format!(
        "r9 abs={} rel={}",
        fl(c.iter().map(|x| x.0)),
        fl(c.iter().map(|x| x.1))
    )
}
fn rsm_parts<const N: usize, const W: usize, B>(r: &RankSmall<N, W, B>) -> String {
    let (u, c, n) = r.verif_parts();
    format!(
        "rs upper={} abs={} rel={} ones={}",
        fl(u.iter()),
        fl(c.iter().map(|x| x.0)),
        fl(c.iter().flat_map(|x| x.1.iter().copied())),
        n
    )
}
impl P for Rank9<BV> {
    fn parts(&self) -> String {
        r9_parts(self)
    }
}
impl<const N: usize, const W: usize> P for RankSmall<N, W, BV> {
    fn parts(&self) -> String {
        rsm_parts(self)
    }
}
/// A rank structure whose backend was replaced (public `map`) by a structure the hooks cannot reach
/// from the outside: `inner` is the dump of that backend taken inside the `map` closure.
pub struct Wp<T> {
    st: T,
    inner: String,
}
impl P for Wp<Rank9<SelectAdapt<AB>>> {
    fn parts(&self) -> String {
        join(r9_parts(&self.st), self.inner.clone())
    }
}
impl<const N: usize, const W: usize> P for Wp<RankSmall<N, W, SelectAdapt<AB>>> {
    fn parts(&self) -> String {
        join(rsm_parts(&self.st), self.inner.clone())
    }
}
impl<R: P> P for Select9<R> {
    fn parts(&self) -> String {
        let (i, s, a, b) = self.verif_parts();
        join(
            format!("s9 inv={} sub={} isz={} ssz={}", fl(i.iter()), fl(s.iter()), a, b),
            self.verif_inner().parts(),
        )
    }
}
impl<B: P> P for SelectAdapt<B> {
    fn parts(&self) -> String {
        let (i, s, l, s16, m) = self.verif_parts();
        join(
            format!("sa inv={} spill={} l={} s16={} m={}", fl(i.iter()), fl(s.iter()), l, s16, m),
            self.verif_inner().parts(),
        )
    }
}
impl<B: P> P for SelectZeroAdapt<B> {
    fn parts(&self) -> String {
        let (i, s, l, s16, m) = self.verif_parts();
        join(
            format!("sza inv={} spill={} l={} s16={} m={}", fl(i.iter()), fl(s.iter()), l, s16, m),
            self.verif_inner().parts(),
        )
    }
}
impl<B: P, const L: usize, const M: usize> P for SelectAdaptConst<B, Box<[usize]>, L, M> {
    fn parts(&self) -> String {
        let (i, s) = self.verif_parts();
        join(
            format!("sac inv={} spill={} l={} m={}", fl(i.iter()), fl(s.iter()), L, M),
            self.verif_inner().parts(),
        )
    }
}
impl<B: P, const L: usize, const M: usize> P for SelectZeroAdaptConst<B, Box<[usize]>, L, M> {
    fn parts(&self) -> String {
        let (i, s) = self.verif_parts();
        join(
            format!("szac inv={} spill={} l={} m={}", fl(i.iter()), fl(s.iter()), L, M),
            self.verif_inner().parts(),
        )
    }
}
impl<C: P, const N: usize, const W: usize> P for SelectSmall<N, W, C> {
    fn parts(&self) -> String {
        let (i, b, l) = self.verif_parts();
        join(
            format!("ss inv={} begin={} l={}", fl(i.iter()), fl(b.iter()), l),
            self.verif_inner().parts(),
        )
    }
}
impl<C: P, const N: usize, const W: usize> P for SelectZeroSmall<N, W, C> {
    fn parts(&self) -> String {
        let (i, b, l) = self.verif_parts();
        join(
            format!("szs inv={} begin={} l={}", fl(i.iter()), fl(b.iter()), l),
            self.verif_inner().parts(),
        )
    }
}

pub trait RS {
    fn parts(&self) -> String;
    /// `BitLength::len` (delegated through every wrapper)
    fn len(&self) -> usize;
    /// the inherent `len()` of the outermost structure
    fn ilen(&self) -> usize;
    fn bit(&self, i: usize) -> bool;
    fn rank(&self, _p: usize) -> Option<usize> {
        None
    }
    fn rank_zero(&self, _p: usize) -> Option<usize> {
        None
    }
    fn num_ones(&self) -> Option<usize> {
        None
    }
    fn num_zeros(&self) -> Option<usize> {
        None
    }
    fn count_ones(&self) -> Option<usize> {
        None
    }
    fn select(&self, _r: usize) -> Option<Option<usize>> {
        None
    }
    fn select_zero(&self, _r: usize) -> Option<Option<usize>> {
        None
    }
}

macro_rules! rs_impl {
    ($t:ty; $($cap:ident),*) => {
        impl RS for $t {
            fn parts(&self) -> String { P::parts(self) }
            fn len(&self) -> usize { BitLength::len(self) }
            fn ilen(&self) -> usize { <$t>::len(self) }
            fn bit(&self, i: usize) -> bool { self[i] }
            $( rs_impl!(@cap $cap); )*
        }
    };
    (wp $t:ty; $($cap:ident),*) => {
        impl RS for Wp<$t> {
            fn parts(&self) -> String { P::parts(self) }
            fn len(&self) -> usize { BitLength::len(&self.st) }
            fn ilen(&self) -> usize { <$t>::len(&self.st) }
            fn bit(&self, i: usize) -> bool { self.st[i] }
            $( rs_impl!(@wcap $cap); )*
        }
    };
    (@wcap rank) => {
        fn rank(&self, p: usize) -> Option<usize> { Some(Rank::rank(&self.st, p)) }
        fn rank_zero(&self, p: usize) -> Option<usize> { Some(RankZero::rank_zero(&self.st, p)) }
    };
    (@wcap numbits) => {
        fn num_ones(&self) -> Option<usize> { Some(NumBits::num_ones(&self.st)) }
        fn num_zeros(&self) -> Option<usize> { Some(NumBits::num_zeros(&self.st)) }
    };
    (@wcap count) => {
        fn count_ones(&self) -> Option<usize> { Some(BitCount::count_ones(&self.st)) }
    };
    (@wcap select) => {
        fn select(&self, r: usize) -> Option<Option<usize>> { Some(Select::select(&self.st, r)) }
    };
    (@cap rank) => {
        fn rank(&self, p: usize) -> Option<usize> { Some(Rank::rank(self, p)) }
        fn rank_zero(&self, p: usize) -> Option<usize> { Some(RankZero::rank_zero(self, p)) }
    };
    (@cap numbits) => {
        fn num_ones(&self) -> Option<usize> { Some(NumBits::num_ones(self)) }
        fn num_zeros(&self) -> Option<usize> { Some(NumBits::num_zeros(self)) }
    };
    (@cap count) => {
        fn count_ones(&self) -> Option<usize> { Some(BitCount::count_ones(self)) }
    };
    (@cap select) => {
        fn select(&self, r: usize) -> Option<Option<usize>> { Some(Select::select(self, r)) }
    };
    (@cap select_zero) => {
        fn select_zero(&self, r: usize) -> Option<Option<usize>> { Some(SelectZero::select_zero(self, r)) }
    };
}

type RS0 = RankSmall<2, 9, BV>;
type RS1 = RankSmall<1, 9, BV>;
type RS2 = RankSmall<1, 10, BV>;
type RS3 = RankSmall<1, 11, BV>;
type RS4 = RankSmall<3, 13, BV>;

rs_impl!(Rank9<BV>; rank, numbits, count);
rs_impl!(RS0; rank, numbits, count);
rs_impl!(RS1; rank, numbits, count);
rs_impl!(RS2; rank, numbits, count);
rs_impl!(RS3; rank, numbits, count);
rs_impl!(RS4; rank, numbits, count);
rs_impl!(Select9<Rank9<BV>>; rank, numbits, count, select);
rs_impl!(SelectAdapt<AB>; numbits, count, select);
rs_impl!(SelectZeroAdapt<AB>; numbits, count, select_zero);
rs_impl!(SelectAdapt<Rank9<BV>>; rank, numbits, count, select);
rs_impl!(SelectZeroAdapt<SelectAdapt<AB>>; numbits, count, select, select_zero);
rs_impl!(SelectZeroAdapt<SelectAdapt<Rank9<BV>>>; rank, numbits, count, select, select_zero);
rs_impl!(SelectAdapt<SelectZeroAdapt<AB>>; numbits, count, select, select_zero);
rs_impl!(SelectZeroAdapt<Select9<Rank9<BV>>>; rank, numbits, count, select, select_zero);
rs_impl!(wp Rank9<SelectAdapt<AB>>; rank, numbits, count, select);

macro_rules! consts {
    ($($l:literal, $m:literal);*) => {
        $(
            rs_impl!(SelectAdaptConst<AB, Box<[usize]>, $l, $m>; numbits, count, select);
            rs_impl!(SelectZeroAdaptConst<AB, Box<[usize]>, $l, $m>; numbits, count, select_zero);
            rs_impl!(SelectAdaptConst<Rank9<BV>, Box<[usize]>, $l, $m>; rank, numbits, count, select);
            rs_impl!(SelectZeroAdaptConst<SelectAdaptConst<Rank9<BV>, Box<[usize]>, $l, $m>, Box<[usize]>, $l, $m>;
                rank, numbits, count, select, select_zero);
        )*
        fn build_const(sid: &str, l: usize, m: usize, bits: BV) -> Option<Box<dyn RS>> {
            match (sid, l, m) {
                $(
                    ("sac", $l, $m) => Some(Box::new(SelectAdaptConst::<AB, Box<[usize]>, $l, $m>::new(bits.into()))),
                    ("szac", $l, $m) => Some(Box::new(SelectZeroAdaptConst::<AB, Box<[usize]>, $l, $m>::new(bits.into()))),
                    ("szac_sac_r9", $l, $m) => Some(Box::new(
                        SelectZeroAdaptConst::<_, Box<[usize]>, $l, $m>::new(
                            SelectAdaptConst::<_, Box<[usize]>, $l, $m>::new(Rank9::new(bits))))),
                    // the one-selecting twin of `szac_map` (D33 concerned both `map`s)
                    ("sac_map", $l, $m) => Some(Box::new(unsafe {
                        SelectAdaptConst::<AB, Box<[usize]>, $l, $m>::new(bits.into()).map(|ab| Rank9::new(ab.into_inner()))
                    })),
                    // `into_inner` hands back the wrapped structure untouched
                    ("sac_inner", $l, $m) => Some(Box::new(
                        SelectAdaptConst::<_, Box<[usize]>, $l, $m>::new(Rank9::new(bits)).into_inner())),
                    ("szac_inner", $l, $m) => Some(Box::new(
                        SelectZeroAdaptConst::<_, Box<[usize]>, $l, $m>::new(
                            SelectAdaptConst::<AB, Box<[usize]>, $l, $m>::new(bits.into())).into_inner())),
                    ("szac_map", $l, $m) => Some(Box::new(unsafe {
                        SelectZeroAdaptConst::<AB, Box<[usize]>, $l, $m>::new(bits.into()).map(|ab|
                            SelectAdaptConst::<_, Box<[usize]>, $l, $m>::new(Rank9::new(ab.into_inner())))
                    })),
                )*
                _ => None,
            }
        }
        const CONST_GRID: &[(usize, usize)] = &[$(($l, $m)),*];
    };
}
consts!(12, 3; 0, 0; 1, 0; 2, 0; 3, 1; 4, 0; 5, 2; 6, 0; 8, 1; 8, 4; 10, 2; 13, 0; 13, 4);

macro_rules! smalls {
    ($($k:literal, $n:literal, $w:literal);*) => {
        $(
            rs_impl!(SelectSmall<$n, $w, RankSmall<$n, $w, BV>>; rank, numbits, count, select);
            rs_impl!(wp RankSmall<$n, $w, SelectAdapt<AB>>; rank, numbits, count, select);
            rs_impl!(SelectZeroSmall<$n, $w, RankSmall<$n, $w, BV>>; rank, numbits, count, select_zero);
            rs_impl!(SelectZeroSmall<$n, $w, SelectSmall<$n, $w, RankSmall<$n, $w, BV>>>; rank, numbits, count, select, select_zero);
        )*
        fn build_small(sid: &str, k: usize, b: usize, bits: BV) -> Option<Box<dyn RS>> {
            match (sid, k) {
                $(
                    ("rs", $k) => Some(Box::new(RankSmall::<$n, $w, BV>::new(bits))),
                    ("ss", $k) => Some(Box::new(SelectSmall::<$n, $w, _>::with_inv(RankSmall::<$n, $w, BV>::new(bits), b))),
                    ("ss_new", $k) => Some(Box::new(SelectSmall::<$n, $w, _>::new(RankSmall::<$n, $w, BV>::new(bits)))),
                    ("szs", $k) => Some(Box::new(SelectZeroSmall::<$n, $w, _>::with_inv(RankSmall::<$n, $w, BV>::new(bits), b))),
                    ("szs_new", $k) => Some(Box::new(SelectZeroSmall::<$n, $w, _>::new(RankSmall::<$n, $w, BV>::new(bits)))),
                    ("szs_ss", $k) => Some(Box::new(SelectZeroSmall::<$n, $w, _>::with_inv(
                        SelectSmall::<$n, $w, _>::with_inv(RankSmall::<$n, $w, BV>::new(bits), b), b))),
                    // `into_inner` of every layer of the family
                    ("rs_inner", $k) => Some(Box::new(RankSmall::<$n, $w, BV>::new(RankSmall::<$n, $w, BV>::new(bits).into_inner()))),
                    ("ss_inner", $k) => Some(Box::new(SelectSmall::<$n, $w, _>::with_inv(RankSmall::<$n, $w, BV>::new(bits), b).into_inner())),
                    ("szs_inner", $k) => Some(Box::new(SelectZeroSmall::<$n, $w, _>::with_inv(RankSmall::<$n, $w, BV>::new(bits), b).into_inner())),
                    ("szs_ss_inner", $k) => Some(Box::new(SelectZeroSmall::<$n, $w, _>::with_inv(
                        SelectSmall::<$n, $w, _>::with_inv(RankSmall::<$n, $w, BV>::new(bits), b), b).into_inner())),
                    // `RankSmall::map` onto a different backend type (a selector): counters and the
                    // cached number of ones must survive; `Select` is then delegated to the new backend
                    ("rs_map_sa", $k) => {
                        let mut inner = String::new();
                        let st = unsafe {
                            RankSmall::<$n, $w, BV>::new(bits).map(|bv| {
                                let sa = SelectAdapt::with_inv(AB::from(bv), b, 1);
                                inner = P::parts(&sa);
                                sa
                            })
                        };
                        Some(Box::new(Wp { st, inner }))
                    }
                )*
                _ => None,
            }
        }
    };
}
smalls!(0, 2, 9; 1, 1, 9; 2, 1, 10; 3, 1, 11; 4, 3, 13);

/// the `rank_small!` macro (its first argument is a literal)
fn build_rank_small_macro(k: usize, bits: BV) -> Option<Box<dyn RS>> {
    Some(match k {
        0 => Box::new(sux::rank_small![0; bits]),
        1 => Box::new(sux::rank_small![1; bits]),
        2 => Box::new(sux::rank_small![2; bits]),
        3 => Box::new(sux::rank_small![3; bits]),
        4 => Box::new(sux::rank_small![4; bits]),
        _ => return None,
    })
}

/// builds structure `sid` with parameters (p1, p2) over `bits`
fn build(sid: &str, p1: usize, p2: usize, bits: BV) -> Option<Box<dyn RS>> {
    Some(match sid {
        "rank9" => Box::new(Rank9::new(bits)),
        "sel9" => Box::new(Select9::new(Rank9::new(bits))),
        "sa" => Box::new(SelectAdapt::with_inv(AB::from(bits), p1, p2)),
        "sa_new" => Box::new(SelectAdapt::new(AB::from(bits), p2)),
        "sa_span" => Box::new(SelectAdapt::with_span(AB::from(bits), p1, p2)),
        "sza" => Box::new(SelectZeroAdapt::with_inv(AB::from(bits), p1, p2)),
        "sza_new" => Box::new(SelectZeroAdapt::new(AB::from(bits), p2)),
        "sza_span" => Box::new(SelectZeroAdapt::with_span(AB::from(bits), p1, p2)),
        "sa_r9" => Box::new(SelectAdapt::with_inv(Rank9::new(bits), p1, p2)),
        "sza_sa" => Box::new(SelectZeroAdapt::with_inv(
            SelectAdapt::with_inv(AB::from(bits), p1, p2),
            p1,
            p2,
        )),
        "sa_sza" => Box::new(SelectAdapt::with_inv(
            SelectZeroAdapt::with_inv(AB::from(bits), p1, p2),
            p1,
            p2,
        )),
        "sza_sa_r9" => Box::new(SelectZeroAdapt::with_inv(
            SelectAdapt::with_inv(Rank9::new(bits), p1, p2),
            p1,
            p2,
        )),
        "sza_sel9" => Box::new(SelectZeroAdapt::with_inv(
            Select9::new(Rank9::new(bits)),
            p1,
            p2,
        )),
        // built over one backend and then moved onto another one with the public `map` (contract:
        // same contents): the structure's own arrays and parameters must survive unchanged
        "sza_map" => Box::new(unsafe {
            SelectZeroAdapt::with_inv(AB::from(bits), p1, p2).map(|ab| SelectAdapt::with_inv(ab, p1, p2))
        }),
        "sa_map" => Box::new(unsafe {
            SelectAdapt::with_inv(AB::from(bits), p1, p2).map(|ab| Rank9::new(ab.into_inner()))
        }),
        "sa_map_sza" => Box::new(unsafe {
            SelectAdapt::with_inv(AB::from(bits), p1, p2).map(|ab| SelectZeroAdapt::with_inv(ab, p1, p2))
        }),
        "r9_map" => Box::new(unsafe { Rank9::new(bits).map(|b| b) }),
        // `Rank9::map` onto a different backend type (a selector): `Select` is then delegated to it
        "r9_map_sa" => {
            let mut inner = String::new();
            let st = unsafe {
                Rank9::new(bits).map(|bv| {
                    let sa = SelectAdapt::with_inv(AB::from(bv), p1, p2);
                    inner = P::parts(&sa);
                    sa
                })
            };
            Box::new(Wp { st, inner })
        }
        // `into_inner` of every wrapper: what comes back is the wrapped structure, untouched
        "r9_inner_sa" => Box::new(SelectAdapt::with_inv(AB::from(Rank9::new(bits).into_inner()), p1, p2)),
        "s9_inner" => Box::new(Select9::new(Rank9::new(bits)).into_inner()),
        "sa_inner" => Box::new(SelectAdapt::with_inv(Rank9::new(bits), p1, p2).into_inner()),
        "sza_inner" => Box::new(
            SelectZeroAdapt::with_inv(SelectAdapt::with_inv(AB::from(bits), p1, p2), p1, p2).into_inner(),
        ),
        // `AddNumBits::{into_raw_parts, from_raw_parts}` round trip under the selector
        "sa_anb" => {
            let (b, n) = AB::from(bits).into_raw_parts();
            Box::new(SelectAdapt::with_inv(unsafe { AB::from_raw_parts(b, n) }, p1, p2))
        }
        "rs_macro" => return build_rank_small_macro(p1, bits),
        "sac" | "szac" | "szac_sac_r9" | "szac_map" | "sac_map" | "sac_inner" | "szac_inner" => {
            return build_const(sid, p1, p2, bits)
        }
        "rs" | "ss" | "ss_new" | "szs" | "szs_new" | "szs_ss" | "rs_inner" | "ss_inner" | "szs_inner"
        | "szs_ss_inner" | "rs_map_sa" => return build_small(sid, p1, p2, bits),
        _ => return None,
    })
}

/// a `bits_sparse` vector: the naive oracle works on the list of flipped positions only
struct Sparse {
    nw: usize,
    fill: bool,
    /// all flipped positions (also the stale ones at or beyond `len`), strictly increasing
    flips: Vec<usize>,
    /// number of flipped positions below `len`
    inside: usize,
}

impl Sparse {
    /// the backend (allocated for each build and dropped with the structure)
    fn words(&self) -> Vec<usize> {
        let mut ws = vec![if self.fill { usize::MAX } else { 0 }; self.nw];
        for &p in &self.flips {
            ws[p / 64] ^= 1usize << (p % 64);
        }
        ws
    }
    /// position of the `r`-th (from 0) position of `0..len` that is not flipped
    fn nth_unflipped(&self, r: usize, len: usize) -> Option<usize> {
        let mut pos = r;
        for &f in &self.flips[..self.inside] {
            if f <= pos {
                pos += 1;
            } else {
                break;
            }
        }
        if pos < len {
            Some(pos)
        } else {
            None
        }
    }
    fn nth_flipped(&self, r: usize) -> Option<usize> {
        self.flips[..self.inside].iter().nth(r).copied()
    }
}

struct S {
    words: Vec<usize>,
    len: usize,
    ob: Vec<bool>,
    ones: Vec<usize>,
    zeros: Vec<usize>,
    sp: Option<Sparse>,
    st: Option<Box<dyn RS>>,
}

impl S {
    fn n1(&self) -> usize {
        match &self.sp {
            Some(sp) if sp.fill => self.len - sp.inside,
            Some(sp) => sp.inside,
            None => self.ones.len(),
        }
    }
    fn n0(&self) -> usize {
        self.len - self.n1()
    }
    /// naive rank: number of ones below `min(p, len)`
    fn o_rank(&self, p: usize) -> usize {
        match &self.sp {
            Some(sp) => {
                let c = sp.flips[..sp.inside].iter().filter(|&&k| k < p).count();
                if sp.fill {
                    p.min(self.len) - c
                } else {
                    c
                }
            }
            None => self.ones.iter().filter(|&&k| k < p).count(),
        }
    }
    fn o_select(&self, r: usize) -> Option<usize> {
        match &self.sp {
            Some(sp) if sp.fill => sp.nth_unflipped(r, self.len),
            Some(sp) => sp.nth_flipped(r),
            None => self.ones.as_slice().iter().nth(r).copied(),
        }
    }
    fn o_select_zero(&self, r: usize) -> Option<usize> {
        match &self.sp {
            Some(sp) if sp.fill => sp.nth_flipped(r),
            Some(sp) => sp.nth_unflipped(r, self.len),
            None => self.zeros.as_slice().iter().nth(r).copied(),
        }
    }
    fn o_bit(&self, i: usize) -> bool {
        match &self.sp {
            Some(sp) => sp.fill ^ sp.flips.binary_search(&i).is_ok(),
            None => self.ob[i],
        }
    }
}

fn fresh() -> S {
    DIGEST.with(|d| d.set(false));
    S {
        words: vec![],
        len: 0,
        ob: vec![],
        ones: vec![],
        zeros: vec![],
        sp: None,
        st: None,
    }
}

fn parse_words(s: &str) -> Vec<usize> {
    s[1..s.len() - 1]
        .split(',')
        .filter(|x| !x.is_empty())
        .map(|x| x.parse().unwrap())
        .collect()
}

fn exec(ctx: &mut Ctx, s: &mut S, op: &str) {
    ctx.op(op);
    let t: Vec<&str> = op.split(' ').collect();
    let num = |i: usize| -> usize { t[i].parse::<usize>().unwrap() };
    let (res, ores): (String, String) = match t[0] {
        "bits" => {
            s.len = num(1);
            s.words = parse_words(t[2]);
            assert!(s.len <= s.words.len() * 64);
            s.ob = (0..s.len)
                .map(|k| (s.words[k / 64] >> (k % 64)) & 1 != 0)
                .collect();
            s.ones = (0..s.len).filter(|&k| s.ob[k]).collect();
            s.zeros = (0..s.len).filter(|&k| !s.ob[k]).collect();
            s.sp = None;
            DIGEST.with(|d| d.set(false));
            s.st = None;
            ("ok".into(), "ok".into())
        }
        "bits_sparse" => {
            s.st = None; // drop the previous structure (and its backend) first
            s.len = num(1);
            let nw = num(2);
            let fill = num(3) != 0;
            let flips = parse_words(t[4]);
            assert!(s.len <= nw * 64);
            assert!(flips.windows(2).all(|w| w[0] < w[1]) && flips.iter().all(|&p| p < nw * 64));
            let inside = flips.iter().filter(|&&p| p < s.len).count();
            s.words = vec![];
            s.ob = vec![];
            s.ones = vec![];
            s.zeros = vec![];
            s.sp = Some(Sparse { nw, fill, flips, inside });
            DIGEST.with(|d| d.set(true));
            ("ok".into(), "ok".into())
        }
        "build" => {
            let sid = t[1];
            let (p1, p2) = (num(2), num(3));
            s.st = None; // one huge structure at a time
            let words = match &s.sp {
                Some(sp) => sp.words(),
                None => s.words.clone(),
            };
            let bits = unsafe { BV::from_raw_parts(words, s.len) };
            match catch(|| build(sid, p1, p2, bits)) {
                Some(Some(st)) => {
                    s.st = Some(st);
                    ("ok".into(), "ok".into())
                }
                Some(None) => panic!("unknown structure {} {} {}", sid, p1, p2),
                None => {
                    s.st = None;
                    ("panic".into(), "ok".into())
                }
            }
        }
        q => {
            let st = match &s.st {
                Some(st) => st,
                None => {
                    ctx.reply("nostruct");
                    return;
                }
            };
            let n1 = s.n1();
            let n0 = s.n0();
            let fmt_o = |x: Option<Option<usize>>| match x {
                None => "na".to_string(),
                Some(None) => "ok none".to_string(),
                Some(Some(v)) => format!("ok {}", v),
            };
            let fmt_u = |x: Option<usize>| match x {
                None => "na".to_string(),
                Some(v) => format!("ok {}", v),
            };
            match q {
                "rank" => {
                    let p = num(1);
                    let r = catch(|| st.rank(p));
                    let exp = s.o_rank(p);
                    (
                        r.map(fmt_u).unwrap_or("panic".into()),
                        format!("ok {}", exp),
                    )
                }
                "rank_zero" => {
                    let p = num(1);
                    let r = catch(|| st.rank_zero(p));
                    let exp = p - s.o_rank(p);
                    (
                        r.map(fmt_u).unwrap_or("panic".into()),
                        format!("ok {}", exp),
                    )
                }
                "num_ones" => (
                    catch(|| st.num_ones()).map(fmt_u).unwrap_or("panic".into()),
                    format!("ok {}", n1),
                ),
                "num_zeros" => (
                    catch(|| st.num_zeros()).map(fmt_u).unwrap_or("panic".into()),
                    format!("ok {}", n0),
                ),
                "count_ones" => (
                    catch(|| st.count_ones()).map(fmt_u).unwrap_or("panic".into()),
                    format!("ok {}", n1),
                ),
                "len" => {
                    // `BitLength::len` through the delegation chain and the inherent `len()`
                    let (a, b) = (st.len(), st.ilen());
                    (
                        if a == b { format!("ok {}", a) } else { format!("ok {}/{}", a, b) },
                        format!("ok {}", s.len),
                    )
                }
                "parts" => {
                    let x = format!("ok {}", st.parts());
                    (x.clone(), x)
                }
                "index" => {
                    let i = num(1);
                    let r = catch(|| st.bit(i));
                    (
                        r.map(|b| format!("ok {}", b01(b))).unwrap_or("panic".into()),
                        if i < s.len {
                            format!("ok {}", b01(s.o_bit(i)))
                        } else {
                            "panic".into()
                        },
                    )
                }
                "select" => {
                    let r = num(1);
                    let x = catch(|| st.select(r));
                    (
                        x.map(fmt_o).unwrap_or("panic".into()),
                        match s.o_select(r) {
                            Some(v) => format!("ok {}", v),
                            None => "ok none".into(),
                        },
                    )
                }
                "select_zero" => {
                    let r = num(1);
                    let x = catch(|| st.select_zero(r));
                    (
                        x.map(fmt_o).unwrap_or("panic".into()),
                        match s.o_select_zero(r) {
                            Some(v) => format!("ok {}", v),
                            None => "ok none".into(),
                        },
                    )
                }
                _ => panic!("unknown op {}", op),
            }
        }
    };
    if res != "na" {
        ctx.check_oracle(&ores, &res);
    }
    ctx.reply(&res);
}

// ---------------------------------------------------------------------------- generators

/// (kind, p1, p2) of every structure configuration exercised
fn all_configs(ctx: &mut Ctx, thorough: bool) -> Vec<(String, usize, usize)> {
    let mut v: Vec<(String, usize, usize)> = vec![];
    v.push(("rank9".into(), 0, 0));
    v.push(("sel9".into(), 0, 0));
    for k in 0..5 {
        v.push(("rs".into(), k, 0));
        v.push(("ss_new".into(), k, 0));
        v.push(("szs_new".into(), k, 0));
        for b in [0usize, 1, 2, 8, 64] {
            v.push(("ss".into(), k, b));
            v.push(("szs".into(), k, b));
        }
        v.push(("szs_ss".into(), k, 4));
    }
    for &(l, m) in CONST_GRID {
        v.push(("sac".into(), l, m));
        v.push(("szac".into(), l, m));
        v.push(("szac_sac_r9".into(), l, m));
    }
    let lm: &[(usize, usize)] = &[
        (0, 0),
        (1, 0),
        (2, 0),
        (2, 1),
        (3, 0),
        (3, 1),
        (4, 3),
        (5, 0),
        (6, 2),
        (8, 1),
        (9, 3),
        (10, 16),
        (12, 3),
        (13, 0),
        (13, 4),
        (16, 2),
    ];
    for &(l, m) in lm {
        v.push(("sa".into(), l, m));
        v.push(("sza".into(), l, m));
    }
    for &(l, m) in &[(3usize, 1usize), (6, 0), (10, 3)] {
        for sid in ["sa_r9", "sza_sa", "sa_sza", "sza_sa_r9", "sza_sel9"] {
            v.push((sid.into(), l, m));
        }
    }
    // structures moved onto another backend with `map` (every parameter must survive the move:
    // parameters with L > M + 4 distinguish the inventory mask from the 16-bit-span mask)
    for &(l, m) in &[(3usize, 1usize), (7, 2), (10, 2), (10, 3)] {
        for sid in ["sza_map", "sa_map", "sa_map_sza"] {
            v.push((sid.into(), l, m));
        }
    }
    v.push(("r9_map".into(), 0, 0));
    // type-aware API coverage: `into_inner` / `map` of every structure, `AddNumBits` raw parts,
    // the `rank_small!` macro (see API_COVERAGE_A.md)
    for &(l, m) in &[(3usize, 1usize), (10, 2)] {
        v.push(("r9_map_sa".into(), l, m));
    }
    v.push(("r9_inner_sa".into(), 3, 1));
    v.push(("s9_inner".into(), 0, 0));
    v.push(("sa_inner".into(), 7, 2));
    v.push(("sza_inner".into(), 7, 2));
    v.push(("sa_anb".into(), 3, 1));
    for k in 0..5 {
        v.push(("rs_inner".into(), k, 0));
        v.push(("ss_inner".into(), k, 2));
        v.push(("szs_inner".into(), k, 2));
        v.push(("rs_map_sa".into(), k, 3 + k));
        v.push(("rs_macro".into(), k, 0));
    }
    v.push(("szs_ss_inner".into(), 0, 1));
    v.push(("szs_ss_inner".into(), 4, 1));
    for &(l, m) in &[(5usize, 2usize), (8, 1), (10, 2)] {
        v.push(("sac_map".into(), l, m));
    }
    for &(l, m) in &[(5usize, 2usize), (13, 4)] {
        v.push(("sac_inner".into(), l, m));
        v.push(("szac_inner".into(), l, m));
    }
    for &(l, m) in &[(12usize, 3usize), (5, 2), (8, 1)] {
        v.push(("szac_map".into(), l, m));
    }
    for m in [0usize, 1, 3, 16] {
        v.push(("sa_new".into(), 0, m));
        v.push(("sza_new".into(), 0, m));
    }
    for span in [1usize, 64, 512, 8192, 1 << 20] {
        v.push(("sa_span".into(), span, 2));
        v.push(("sza_span".into(), span, 2));
    }
    if !thorough {
        // quick tier: a seeded half of the parameter grid per run (directed core uses all)
        let _ = ctx;
    }
    v
}

/// bit vectors as (len, words); words may carry garbage beyond len
fn gen_bits(ctx: &mut Ctx, max_len: usize) -> (usize, Vec<usize>, String) {
    const LENS: &[usize] = &[
        0, 1, 2, 63, 64, 65, 127, 128, 129, 255, 256, 257, 511, 512, 513, 1023, 1024, 1025, 2047,
        2048, 2049, 4095, 4096, 4097, 8191, 8192, 8193, 16384, 32768 + 7, 65536, 65537,
    ];
    let len = if ctx.rng.chance(2, 3) {
        *ctx.rng.pick(LENS)
    } else {
        ctx.rng.usize_below(max_len)
    }
    .min(max_len);
    let nw = len.div_ceil(64);
    let shape = ctx.rng.below(13);
    let mut ws: Vec<usize> = vec![0; nw];
    let name;
    match shape {
        0 => name = "zeros",
        1 => {
            ws.iter_mut().for_each(|w| *w = usize::MAX);
            name = "ones";
        }
        2 => {
            ws.iter_mut().for_each(|w| *w = ctx.rng.next_u64() as usize);
            name = "half";
        }
        3 => {
            ws.iter_mut()
                .for_each(|w| *w = (ctx.rng.next_u64() & ctx.rng.next_u64() & ctx.rng.next_u64() & ctx.rng.next_u64() & ctx.rng.next_u64() & ctx.rng.next_u64()) as usize);
            name = "sparse64";
        }
        4 => {
            // very sparse: about one bit per 1000
            let k = len / 1000 + 1;
            for _ in 0..k {
                if len > 0 {
                    let p = ctx.rng.usize_below(len);
                    ws[p / 64] |= 1 << (p % 64);
                }
            }
            name = "sparse1000";
        }
        5 => {
            // very dense: about one zero per 1000
            ws.iter_mut().for_each(|w| *w = usize::MAX);
            let k = len / 1000 + 1;
            for _ in 0..k {
                if len > 0 {
                    let p = ctx.rng.usize_below(len);
                    ws[p / 64] &= !(1 << (p % 64));
                }
            }
            name = "dense1000";
        }
        6 => {
            // two densities: dense first half, sparse second half (or vice versa)
            let flip = ctx.rng.bool();
            for (i, w) in ws.iter_mut().enumerate() {
                let first = i < nw / 2;
                *w = if first != flip {
                    ctx.rng.next_u64() as usize | ctx.rng.next_u64() as usize
                } else if ctx.rng.chance(1, 20) {
                    1usize << ctx.rng.below(64)
                } else {
                    0
                };
            }
            name = "two-density";
        }
        7 => {
            // runs of ones and zeros of random lengths crossing word boundaries
            let mut p = 0;
            let mut v = ctx.rng.bool();
            while p < len {
                let run = 1 + ctx.rng.usize_below(200);
                if v {
                    for q in p..(p + run).min(len) {
                        ws[q / 64] |= 1 << (q % 64);
                    }
                }
                p += run;
                v = !v;
            }
            name = "runs";
        }
        8 => {
            if len > 0 {
                let p = match ctx.rng.below(3) {
                    0 => 0,
                    1 => len - 1,
                    _ => ctx.rng.usize_below(len),
                };
                ws[p / 64] |= 1 << (p % 64);
            }
            name = "single-one";
        }
        9 => {
            ws.iter_mut().for_each(|w| *w = usize::MAX);
            if len > 0 {
                let p = match ctx.rng.below(3) {
                    0 => 0,
                    1 => len - 1,
                    _ => ctx.rng.usize_below(len),
                };
                ws[p / 64] &= !(1 << (p % 64));
            }
            name = "single-zero";
        }
        10 => {
            // blocks entirely 1 / entirely 0 of 512 bits
            for (i, w) in ws.iter_mut().enumerate() {
                *w = if (i / 8) % 2 == 0 { usize::MAX } else { 0 };
            }
            name = "blocks512";
        }
        11 => {
            // about one bit per 128 / 256 / 512 (Select9 span classes 128..=255 / 256..=511 / >= 512)
            let d = *ctx.rng.pick(&[100usize, 128, 200, 256, 400, 512, 700]);
            let mut p = ctx.rng.usize_below(d);
            while p < len {
                ws[p / 64] |= 1 << (p % 64);
                p += 1 + ctx.rng.usize_below(2 * d);
            }
            name = "sparse-mid";
        }
        _ => {
            ws.iter_mut()
                .for_each(|w| *w = (ctx.rng.next_u64() & ctx.rng.next_u64()) as usize);
            name = "quarter";
        }
    }
    // tail state: clean, stale bits in the last word, extra garbage words
    let tail = ctx.rng.below(4);
    let mut tname = "clean";
    if len % 64 != 0 {
        let m = (1usize << (len % 64)) - 1;
        let last = nw - 1;
        match tail {
            0 | 1 => ws[last] &= m,
            2 => {
                ws[last] = (ws[last] & m) | !m;
                tname = "stale-ones";
            }
            _ => {
                ws[last] = (ws[last] & m) | (ctx.rng.next_u64() as usize & !m);
                tname = "stale-random";
            }
        }
    }
    if tail == 3 || (tail == 2 && len % 64 == 0) {
        let extra = 1 + ctx.rng.usize_below(3);
        for _ in 0..extra {
            ws.push(ctx.rng.word() as usize);
        }
        if tname == "clean" {
            tname = "extra-words";
        }
    }
    (len, ws, format!("{}:{}", name, tname))
}

fn query_battery(ctx: &mut Ctx, s: &mut S, full: bool) {
    let len = s.len;
    let n1 = s.ones.len();
    let n0 = s.zeros.len();
    for o in ["parts", "len", "num_ones", "num_zeros", "count_ones"] {
        if o == "parts" && s.len > 40_000 && !ctx.rng.chance(1, 8) {
            continue; // the dump is O(len): on large vectors only a sample
        }
        exec(ctx, s, o);
    }
    let mut ps: Vec<usize> = vec![0, 1, len / 2, len.saturating_sub(1), len, len + 1, len + 64, len + 513];
    let mut rs1: Vec<usize> = vec![0, 1, n1 / 2, n1.saturating_sub(1), n1, n1 + 1, n1 + 700];
    let mut rs0: Vec<usize> = vec![0, 1, n0 / 2, n0.saturating_sub(1), n0, n0 + 1, n0 + 700];
    let extra = if full { 400 } else { 12 };
    if full && len <= 600 {
        ps.extend(0..=len + 2);
        rs1.extend(0..=n1 + 1);
        rs0.extend(0..=n0 + 1);
    } else {
        for _ in 0..extra {
            ps.push(ctx.rng.usize_below(len + 3));
            rs1.push(ctx.rng.usize_below(n1 + 2));
            rs0.push(ctx.rng.usize_below(n0 + 2));
            // around block boundaries
            let b = ctx.rng.usize_below(len / 512 + 1) * 512;
            ps.push(b.min(len + 1));
            ps.push((b + 511).min(len + 1));
        }
    }
    for p in ps {
        exec(ctx, s, &format!("rank {}", p));
        if ctx.rng.chance(1, 3) {
            exec(ctx, s, &format!("rank_zero {}", p));
        }
        if ctx.rng.chance(1, 8) {
            exec(ctx, s, &format!("index {}", p));
        }
    }
    for r in rs1 {
        exec(ctx, s, &format!("select {}", r));
    }
    for r in rs0 {
        exec(ctx, s, &format!("select_zero {}", r));
    }
}


// ---------------------------------------------------------------------------- huge vectors

/// which query families a structure id offers (the others would only reply `na`)
fn offers(sid: &str) -> (bool, bool, bool) {
    // (rank, select, select_zero)
    match sid {
        "rank9" | "rs" | "rs_inner" | "ss_inner" | "szs_inner" | "s9_inner" | "sa_inner" | "sac_inner" | "rs_macro" => (true, false, false),
        "sel9" | "sa_r9" | "ss" | "ss_new" => (true, true, false),
        "szs" | "szs_new" => (true, false, true),
        "sa" | "sa_new" | "sa_span" | "sac" => (false, true, false),
        "sza" | "sza_new" | "sza_span" | "szac" => (false, false, true),
        "sza_sa" | "sa_sza" => (false, true, true),
        _ => (true, true, true),
    }
}

/// queries on a structure over the current `bits_sparse` vector: every rank of the sparse kind
/// (sampled above 3000), and for the dense kind / `rank` the positions around every flipped bit,
/// around the multiples of 2^32 and at both ends
fn huge_battery(ctx: &mut Ctx, s: &mut S, sid: &str) {
    for o in ["parts", "len", "num_ones", "num_zeros", "count_ones"] {
        exec(ctx, s, o);
    }
    let (has_rank, has_sel, has_sel0) = offers(sid);
    let len = s.len;
    let (fill, flips, inside) = {
        let sp = s.sp.as_ref().unwrap();
        (sp.fill, sp.flips.clone(), sp.inside)
    };
    let fl_in = &flips[..inside];
    // ranks of the sparse kind
    let mut sparse_r: Vec<usize> = vec![];
    if inside <= 3000 {
        sparse_r.extend(0..=inside + 1);
    } else {
        sparse_r.extend(0..40);
        sparse_r.extend(inside - 40..=inside + 1);
        sparse_r.extend((0..inside).step_by(inside / 300 + 1));
        for j in 6..=16 {
            for k in 1..4 {
                for d in [0usize, 1, 2] {
                    sparse_r.push(((k << j) + d).saturating_sub(1));
                }
            }
        }
        sparse_r.retain(|&r| r <= inside + 1);
    }
    sparse_r.sort();
    sparse_r.dedup();
    // interesting positions
    let mut pos: Vec<usize> = vec![0, 1, 63, 64, len / 2, len.saturating_sub(2), len.saturating_sub(1)];
    let near = |f: usize| (f % (1usize << 32)).min((1usize << 32) - f % (1usize << 32)) < (1 << 21);
    for (i, &f) in fl_in.iter().enumerate() {
        if i < 24 || i + 8 >= inside || (near(f) && pos.len() < 400) {
            pos.push(f.saturating_sub(1));
            pos.push(f);
            pos.push(f + 1);
        }
    }
    let mut m = 1usize << 32;
    while m < len + 3 {
        for d in 0..5 {
            pos.push(m + d - 2);
        }
        m += 1 << 32;
    }
    pos.retain(|&p| p < len);
    pos.sort();
    pos.dedup();
    // ranks of the dense kind at those positions
    let mut dense_r: Vec<usize> = vec![];
    for &p in &pos {
        if fl_in.binary_search(&p).is_err() {
            dense_r.push(p - fl_in.iter().filter(|&&k| k < p).count());
        }
    }
    let nd = len - inside;
    dense_r.extend([nd.saturating_sub(1), nd, nd + 1, nd + (1 << 32)]);
    dense_r.sort();
    dense_r.dedup();
    let (ones_r, zeros_r) = if fill { (dense_r, sparse_r) } else { (sparse_r, dense_r) };
    if has_sel {
        for &r in &ones_r {
            exec(ctx, s, &format!("select {}", r));
        }
    }
    if has_sel0 {
        for &r in &zeros_r {
            exec(ctx, s, &format!("select_zero {}", r));
        }
    }
    if has_rank {
        for &p in pos.iter().chain([len, len + 1, len + (1 << 32)].iter()) {
            exec(ctx, s, &format!("rank {}", p));
            if p % 3 == 0 {
                exec(ctx, s, &format!("rank_zero {}", p));
            }
            if p % 5 == 0 {
                exec(ctx, s, &format!("index {}", p));
            }
        }
    }
}

/// one case: a huge vector and a list of structures built over it one at a time
fn huge_case(
    ctx: &mut Ctx,
    name: &str,
    len: usize,
    extra_words: usize,
    fill: bool,
    flips: &[usize],
    builds: &[(&str, usize, usize)],
) {
    let nw = len.div_ceil(64) + extra_words;
    let mut fl: Vec<usize> = flips.to_vec();
    fl.sort();
    fl.dedup();
    ctx.case();
    let mut s = fresh();
    exec(
        ctx,
        &mut s,
        &format!("bits_sparse {} {} {} {}", len, nw, fill as usize, fmt_list(fl.iter())),
    );
    for &(sid, p1, p2) in builds {
        exec(ctx, &mut s, &format!("build {} {} {}", sid, p1, p2));
        huge_battery(ctx, &mut s, sid);
        s.st = None;
        ctx.shape(format!("huge:{}:{}:{}:{}", name, sid, p1, p2));
        ctx.stat("huge-builds");
    }
}

/// Directed cases on vectors of more than 2^32 bits (thorough tier only): the 64-bit span encoding
/// of the adaptive selectors (an inventory span of more than 2^32 bits stores exact positions, in
/// the subinventory first and then in the spill), the second and third 2^32-bit superblock of
/// `RankSmall` / `SelectSmall` / `SelectZeroSmall` (regression inputs of D25 and D27), and
/// `Select9` / `Rank9` with positions and counts beyond 2^32.
fn huge_cases(ctx: &mut Ctx) {
    const B: usize = 1 << 32;
    // --- H1: one inventory span of exactly 2^32 - 1, 2^32, 2^32 + 1 bits with four ones per entry
    // (2^32 is the largest 32-bit span); the last one of the entry lies at the largest possible
    // offset, span - 1
    for d in 0..3usize {
        let len = B + (1 << 20) + 37;
        let ones = [7, 1000, 5000, B + 5 + d, B + 6 + d, B + 70000, B + 70001, B + 70002, B + (1 << 20)];
        let all: &[(&str, usize, usize)] = &[
            ("sa", 2, 0), ("sac", 2, 0), ("sa", 2, 1), ("sa", 1, 0), ("sac", 1, 0), ("sa", 0, 0), ("sa", 3, 0),
            ("sa", 3, 1), ("sac", 3, 1), ("sac", 4, 0), ("sa_new", 0, 3), ("sa_span", B, 2),
        ];
        let few: &[(&str, usize, usize)] = &[("sa", 2, 0), ("sac", 2, 0), ("sa", 2, 1)];
        huge_case(ctx, &format!("span32{}", ["-1", "", "+1"][d]), len, 0, false, &ones,
            if d == 1 { all } else { few });
    }
    // --- H2: 16-, 32- and 64-bit spans in one vector; stale ones beyond len and extra words
    let h2_len = B + (1 << 22) + 1;
    let mut h2: Vec<usize> = (1000..1064).collect();
    h2.extend((0..30).map(|i| (1 << 20) + i * 100_000));
    // (the jump from the last ones of the second group to these is longer than 2^32 bits)
    h2.extend([0usize, 1, 5, 70_000, 70_001, 70_002, 200_000].iter().map(|x| B + (1 << 22) - 300_000 + x));
    h2.push(h2_len - 1);
    let mut h2_stale = h2.clone();
    h2_stale.extend([h2_len + 3, h2_len + 40, 64 * h2_len.div_ceil(64) + 5, 64 * (h2_len.div_ceil(64) + 1) + 63]);
    huge_case(ctx, "mix", h2_len, 2, false, &h2_stale, &[
        ("sa", 3, 1), ("sa", 2, 0), ("sa", 4, 3), ("sa", 6, 2), ("sa", 5, 0), ("sac", 3, 1), ("sac", 5, 2),
        ("sac", 8, 1), ("sac", 8, 4), ("sac", 12, 3), ("sac", 6, 0), ("sa_new", 0, 3), ("sa_span", 1 << 30, 3),
        ("sa_r9", 3, 1),
    ]);
    // --- H3: the same vector complemented: zero selectors (stale zeros beyond len, extra words)
    huge_case(ctx, "mix-zero", h2_len, 2, true, &h2_stale, &[
        ("sza", 3, 1), ("sza", 4, 3), ("sza", 6, 2), ("szac", 5, 2), ("szac", 8, 1), ("sza_span", 1 << 30, 3),
    ]);
    for d in 1..3usize {
        let len = B + (1 << 20) + 37;
        let zeros = [7, 1000, 5000, B + 5 + d, B + 6 + d, B + 70000, B + 70001, B + 70002, B + (1 << 20)];
        let all: &[(&str, usize, usize)] = &[("sza", 2, 0), ("szac", 2, 0), ("sza", 1, 0)];
        huge_case(ctx, &format!("span32{}-zero", ["-1", "", "+1"][d]), len, 0, true, &zeros,
            if d == 1 { all } else { &all[..2] });
    }
    // --- H4: ten thousand ones in two clusters 2^32 bits apart: large inventories (4096 / 8192 ones
    // per entry) whose middle entry stores thousands of exact positions; Select9 / Rank9 /
    // RankSmall / SelectSmall over the same vector
    let h4_len = B + (1 << 20) + 12_345;
    let mut h4: Vec<usize> = (0..5000).map(|i| i * 100).collect();
    h4.extend((0..5000).map(|i| B + (1 << 19) + i * 97));
    huge_case(ctx, "clusters", h4_len, 0, false, &h4, &[
        ("sa", 12, 3), ("sac", 12, 3), ("sac", 13, 4), ("sac", 13, 0), ("sac", 10, 2), ("sa", 10, 16),
        ("sa", 16, 2), ("sa", 9, 3), ("sa_new", 0, 3), ("sa_span", 1 << 20, 2), ("sa_span", B, 3),
        ("rank9", 0, 0), ("sa_r9", 10, 3),
    ]);
    // (every SelectSmall / SelectZeroSmall build below has a RankSmall layer of the same variant:
    // its counters are compared through `parts` and its `rank` is queried)
    huge_case(ctx, "clusters", h4_len, 0, false, &h4, &[("sel9", 0, 0), ("ss", 4, 1 << 14)]);
    huge_case(ctx, "clusters", h4_len, 0, false, &h4, &[("ss", 0, 8), ("szs", 3, 64)]);
    huge_small_cases(ctx);
}

pub fn run(ctx: &mut Ctx) {
    let thorough = ctx.tier == Tier::Thorough;
    // development aid (never set by the registered commands): only the huge-vector cases
    if std::env::var("SUX_VERIF_RANKSEL_ONLY").as_deref() == Ok("huge") {
        huge_cases(ctx);
        return;
    }
    let cfgs = all_configs(ctx, thorough);
    // directed core: every configuration on a few fixed shapes (incl. stale tails, D1-D4 inputs)
    let directed: Vec<(usize, Vec<usize>)> = vec![
        (0, vec![]),
        (1, vec![0]),
        (1, vec![1]),
        (3, vec![0b11111]),                 // 5 pushes of 1, two pops
        (64, vec![usize::MAX]),
        (65, vec![usize::MAX, usize::MAX]), // stale ones after bit 64
        (70, vec![0, usize::MAX, 12345]),   // zeros, stale ones, extra word
        (512, vec![0xAAAAAAAAAAAAAAAA; 8]),
        (513, vec![usize::MAX; 9]),
        (64 * 5 - 7, {
            let mut w = vec![0usize; 5];
            w[0] = 1;
            w[4] = 1 << 20;
            w
        }),
        (64 * 509 - 7, {
            let mut w = vec![0usize; 509];
            w[3] = 2;
            w[508] = 1 << 9;
            w
        }),
        (64 * 513, {
            let mut w = vec![0usize; 513];
            w[0] = 1;
            w[512] = 1 << 63;
            w
        }),
    ];
    for (len, ws) in &directed {
        for (sid, p1, p2) in &cfgs {
            ctx.case();
            let mut s = fresh();
            exec(ctx, &mut s, &format!("bits {} {}", len, fmt_list(ws.iter())));
            exec(ctx, &mut s, &format!("build {} {} {}", sid, p1, p2));
            query_battery(ctx, &mut s, *len <= 70);
            ctx.shape(format!("directed:{}:{}:{}:{}", len, sid, p1, p2));
        }
    }
    // directed: spans above 2^16 (32-bit offsets, spill) for the adaptive family, both polarities
    {
        let big: Vec<(usize, Vec<usize>)> = vec![
            (1 << 17, vec![5, 70_000, 70_001, (1 << 17) - 1]),
            (200_003, vec![0, 1, 2, 3, 66_000, 132_500, 199_000, 200_002]),
            (1 << 20, (0..40).map(|i| i * 26_000 + (i % 7)).collect()),
            // 1100 ones, one every 300 bits: two full inventory spans of more than 131072 bits
            // (Select9's explicit 64-bit class with a non-zero span start)
            (329_757, (0..1100).map(|i| 7 + 300 * i).collect()),
            (65_537, vec![0]),
            (65_538, vec![0, 65_537]),
            (65_537, vec![0, 65_536]),
        ];
        let acfg: Vec<(&str, usize, usize)> = vec![
            ("sa", 3, 0), ("sa", 4, 1), ("sa", 6, 2), ("sa", 2, 0), ("sza", 3, 1), ("sa_new", 0, 3),
            ("sac", 3, 1), ("sac", 5, 2), ("sac", 12, 3), ("szac", 3, 1), ("sza_sa", 3, 1), ("sa_span", 8192, 2),
            ("sel9", 0, 0), ("sza_sel9", 3, 1), ("ss", 0, 8), ("ss", 4, 1), ("szs", 1, 8), ("szs_ss", 2, 4), ("rank9", 0, 0),
        ];
        for (len, ones) in &big {
            for polarity in [false, true] {
                let nw = len.div_ceil(64);
                let mut ws = vec![if polarity { usize::MAX } else { 0 }; nw];
                for &p in ones {
                    if polarity {
                        ws[p / 64] &= !(1usize << (p % 64));
                    } else {
                        ws[p / 64] |= 1usize << (p % 64);
                    }
                }
                for &(sid, p1, p2) in &acfg {
                    // a dense vector seen through the opposite polarity has a tiny inventory: skip
                    // the pairs whose selected bit kind is the dense one (their spans are all short)
                    ctx.case();
                    let mut s = fresh();
                    exec(ctx, &mut s, &format!("bits {} {}", len, fmt_list(ws.iter())));
                    exec(ctx, &mut s, &format!("build {} {} {}", sid, p1, p2));
                    query_battery(ctx, &mut s, false);
                    ctx.shape(format!("big:{}:{}:{}:{}:{}", len, polarity, sid, p1, p2));
                }
            }
        }
    }
    // directed: Select9 span-class boundaries.  An inventory entry covers 512 consecutive ones; its
    // span is measured in groups of four words (256 bits) between the group of its first one and
    // the group of the next entry's first one; the subinventory encoding changes at spans
    // 2, 16, 128, 256, 512.  For each boundary span s we place 512 ones so that the span is exactly
    // s: the first at the start of a group, the bulk spread evenly, and the last two in the final
    // group of the span, just before the next entry's first one (so that offsets reach the maximum
    // the class must represent); a second entry with a different span follows.
    {
        let spans: &[usize] = &[1, 2, 3, 15, 16, 17, 127, 128, 129, 255, 256, 257, 511, 512, 513];
        for (k, &sp) in spans.iter().enumerate() {
            let sp2 = spans[(k + 7) % spans.len()];
            let g0 = 1 + (k % 3); // first group of the first entry
            let mut ones: Vec<usize> = vec![];
            let mut group = g0;
            for &s_ in &[sp, sp2] {
                let start = group * 256 + (k * 37) % 200;
                let end_group = group + s_;
                let next_first = end_group * 256 + 40 + (k * 13) % 150; // next entry's first one
                // 512 ones: first at `start`, #510 and #511 just before next_first, the rest spread
                let avail = next_first - 2 - start;
                ones.push(start);
                for i in 1..510 {
                    ones.push(start + 1 + (i * (avail - 2)) / 510);
                }
                ones.push(next_first - 2);
                ones.push(next_first - 1);
                group = end_group;
            }
            // a short third, incomplete entry
            let tail_first = group * 256 + 40 + (k * 13) % 150;
            for i in 0..5 {
                ones.push(tail_first + 7 * i);
            }
            ones.sort();
            ones.dedup();
            let len = ones[ones.len() - 1] + 1 + (k * 29) % 300;
            let nw = len.div_ceil(64);
            let mut ws = vec![0usize; nw];
            for &p in &ones {
                ws[p / 64] |= 1usize << (p % 64);
            }
            for &(sid, p1, p2) in &[("sel9", 0usize, 0usize), ("sza_sel9", 3, 1)] {
                ctx.case();
                let mut s = fresh();
                exec(ctx, &mut s, &format!("bits {} {}", len, fmt_list(ws.iter())));
                exec(ctx, &mut s, &format!("build {} {} {}", sid, p1, p2));
                query_battery(ctx, &mut s, false);
                // every rank of the two full entries around the class-critical last ones
                for r in [0usize, 1, 509, 510, 511, 512, 513, 1021, 1022, 1023, 1024, 1025] {
                    exec(ctx, &mut s, &format!("select {}", r));
                }
                ctx.shape(format!("sel9-span:{}:{}:{}", sp, sp2, sid));
            }
        }
    }
    // seeded part
    let rounds = if thorough { 150 } else { 40 };
    let max_len = if thorough { 200_000 } else { 70_000 };
    for _ in 0..rounds {
        let (len, ws, shape) = gen_bits(ctx, max_len);
        ctx.stat(&format!("shape:{}", shape));
        // each vector is tried with a seeded subset of the configurations
        let k = if thorough { 60 } else { 24 };
        for _ in 0..k {
            let (sid, p1, p2) = if thorough && false {
                unreachable!()
            } else {
                cfgs[ctx.rng.usize_below(cfgs.len())].clone()
            };
            ctx.case();
            let mut s = fresh();
            exec(ctx, &mut s, &format!("bits {} {}", len, fmt_list(ws.iter())));
            exec(ctx, &mut s, &format!("build {} {} {}", sid, p1, p2));
            query_battery(ctx, &mut s, false);
            let lc = if len == 0 { "0" } else if len % 512 == 0 { "k512" } else if len % 64 == 0 { "k64" } else { "ragged" };
            ctx.shape(format!("{}:{}:{}:{}:{}", shape, lc, sid, p1, p2));
        }
    }
    if thorough {
        huge_cases(ctx);
    }
}

pub fn replay(ctx: &mut Ctx, lines: &[String]) {
    let mut s = fresh();
    for l in lines {
        if l.starts_with("case ") {
            ctx.op(l);
            ctx.reply("case");
            s = fresh();
        } else {
            exec(ctx, &mut s, l);
        }
    }
}

/// `RankSmall` / `SelectSmall` / `SelectZeroSmall` beyond the first 2^32-bit superblock:
/// regression inputs of D25 (`inventory_begin` must have one entry per superblock, also for a
/// superblock without inventory entry) and D27 (with the last inventory entry the block search must
/// stop at the end of the superblock of the rank)
fn huge_small_cases(ctx: &mut Ctx) {
    const B: usize = 1 << 32;
    // D25, smallest form: no one in the first superblock
    {
        let len = B + (1 << 20) + 5;
        let f = [B + 5, B + 1000, B + 70_000];
        huge_case(ctx, "d25-empty-sb0", len, 0, false, &f, &[("ss", 2, 8), ("ss", 4, 8)]);
        huge_case(ctx, "d25-empty-sb0-zero", len, 0, true, &f, &[("szs", 0, 8)]);
    }
    // D27: the last inventory entry lies near the end of the first superblock, so that the block
    // search reaching the end of the vector would probe the counters of the second superblock
    {
        let len = B + (1 << 22) + 1;
        let f = [5, 1000, B - (1 << 20)];
        huge_case(ctx, "d27-short", len, 0, false, &f, &[("ss", 1, 8), ("ss", 3, 8)]);
    }
    // D27 as reported: 2^33 bits, ones at 5, 1000, 2^31
    huge_case(ctx, "d27", 2 * B, 0, false, &[5, 1000, 1 << 31], &[("ss_new", 3, 0)]);
    // D25 as reported, on three superblocks: 11 ones in the first (inventory entries at ranks 0
    // and 8), 4 in the second (none), 49 in the third (entries at ranks 16, 24, ...)
    {
        let len = 2 * B + (1 << 20) + 5;
        let mut f = vec![7, 1000, 70_000, 1 << 20, 1 << 25, 1 << 30, 1 << 31, (1 << 31) + 5, B - (1 << 20), B - 100, B - 1];
        f.extend([B, B + 1, B + (1 << 31), 2 * B - 1]);
        f.extend((0..49).map(|i| 2 * B + i * 20_000 + 3));
        huge_case(ctx, "d25", len, 0, false, &f, &[("ss", 4, 1 << 17), ("ss", 2, 1 << 20)]);
        huge_case(ctx, "d25-zero", len, 0, true, &f, &[("szs", 4, 1 << 17)]);
    }
}
