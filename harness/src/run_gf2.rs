//! Runner `gf2`: `Modulo2System<W>` / `Modulo2Equation<W>` of `src/utils/mod2_sys.rs` (C19).
//!
//! ```text
//! case <n>                 reset                                          -> case
//! system <num_vars> <W>    Modulo2System::<W>::new(num_vars), W in 8|16|32|64|128 (64 = usize) -> ok
//! eq <[vars]> <c>          push(Modulo2Equation::from_parts(vars, c))     -> ok | panic (unsorted: debug_assert)
//! add <i> <j>              equations[i].clone().add(&equations[j])        -> ok <[vars]> <c> | panic
//! gauss                    clone().gaussian_elimination()                 -> ok <[sol]> <eqs> | err <eqs> | panic
//! lazy                     clone().lazy_gaussian_elimination()            -> ok <[sol]> <eqs> | err <eqs> | panic
//! keep                     system := the clone left by the last gauss/lazy that returned -> ok | none
//! check <[sol]>            check(&sol)                                    -> ok 0|1 | panic
//! system_parts <num_vars> <W>   as `system`, but from here on the real system of every solver /
//!                          check / dims op is assembled with `Modulo2System::from_parts`    -> ok
//! dims                     num_vars() and num_equations()                 -> ok <num_vars> <num_equations>
//! ```
//! `<eqs>`: equations of the clone after the call (read through `Debug`), `[vars]:c` joined by
//! `|`, `-` if there are none.
//!
//! Naive oracle (independent of the code under test and of the Lean model):
//! * `check`: direct evaluation of every equation;
//! * `gauss`/`lazy` on in-domain systems (strictly increasing variable lists below `num_vars`;
//!   non-empty lists for `gauss`; for `lazy` empty lists are allowed when `num_vars > 0`): the reply
//!   class must be `ok` iff the system is solvable (Gauss–Jordan over bitsets; for `num_vars <= 12`
//!   also exhaustive search bit by bit, and the two must agree), a returned solution must satisfy
//!   the original system and the equations left behind must be satisfied by it as well;
//! * `add` on strictly increasing lists: symmetric difference, constants XORed.
use crate::common::*;
use sux::traits::Word;
use sux::utils::{Modulo2Equation, Modulo2System};

type Eq = (Vec<u32>, u128);

trait Wd: Word + std::fmt::Debug {
    fn from128(x: u128) -> Self;
    fn to128(self) -> u128;
}
macro_rules! wd {
    ($($t:ty),*) => {$(impl Wd for $t {
        fn from128(x: u128) -> Self { x as $t }
        fn to128(self) -> u128 { self as u128 }
    })*};
}
wd!(u8, u16, u32, usize, u128);

macro_rules! dispatch {
    ($w:expr, $f:ident, $($a:expr),*) => {
        match $w {
            8 => $f::<u8>($($a),*),
            16 => $f::<u16>($($a),*),
            32 => $f::<u32>($($a),*),
            64 => $f::<usize>($($a),*),
            128 => $f::<u128>($($a),*),
            _ => panic!("bad width"),
        }
    };
}

struct S {
    nv: usize,
    w: u32,
    eqs: Vec<Eq>,
    last: Option<Vec<Eq>>,
    /// assemble the real system with `Modulo2System::from_parts` instead of `new` + `push`
    parts: bool,
}

fn fresh() -> S {
    S { nv: 0, w: 64, eqs: vec![], last: None, parts: false }
}

thread_local! {
    /// constructor used by `build` (set from `S::parts` by `exec`)
    static VIA_PARTS: std::cell::Cell<bool> = const { std::cell::Cell::new(false) };
}

fn parse_list(s: &str) -> Vec<u128> {
    s[1..s.len() - 1]
        .split(',')
        .filter(|x| !x.is_empty())
        .map(|x| x.parse().unwrap())
        .collect()
}

/// `Modulo2System { num_vars: 3, equations: [Modulo2Equation { vars: [0, 1], c: 5 }, ..] }`
fn parse_debug(d: &str) -> Vec<Eq> {
    let mut out = vec![];
    let mut rest = d;
    while let Some(p) = rest.find("vars: [") {
        rest = &rest[p + 7..];
        let q = rest.find(']').unwrap();
        let vars: Vec<u32> = rest[..q]
            .split(',')
            .map(|x| x.trim())
            .filter(|x| !x.is_empty())
            .map(|x| x.parse().unwrap())
            .collect();
        rest = &rest[q..];
        let p = rest.find("c: ").unwrap();
        rest = &rest[p + 3..];
        let q = rest.find(' ').unwrap();
        let c: u128 = rest[..q].parse().unwrap();
        out.push((vars, c));
    }
    out
}

fn fmt_eqs(eqs: &[Eq]) -> String {
    if eqs.is_empty() {
        return "-".into();
    }
    eqs.iter()
        .map(|(v, c)| format!("{}:{}", fmt_list(v.iter()), c))
        .collect::<Vec<_>>()
        .join("|")
}

fn build<W: Wd>(nv: usize, eqs: &[Eq]) -> Modulo2System<W> {
    if VIA_PARTS.with(|c| c.get()) {
        let v: Vec<Modulo2Equation<W>> = eqs
            .iter()
            .map(|(v, c)| unsafe { Modulo2Equation::from_parts(v.clone(), W::from128(*c)) })
            .collect();
        return unsafe { Modulo2System::<W>::from_parts(nv, v) };
    }
    let mut s = Modulo2System::<W>::new(nv);
    for (v, c) in eqs {
        s.push(unsafe { Modulo2Equation::from_parts(v.clone(), W::from128(*c)) });
    }
    s
}

fn do_dims<W: Wd>(nv: usize, eqs: &[Eq]) -> Option<(usize, usize)> {
    let sys = build::<W>(nv, eqs);
    catch(|| (sys.num_vars(), sys.num_equations()))
}

fn try_eq<W: Wd>(vars: &[u32], c: u128) -> bool {
    catch(|| unsafe { Modulo2Equation::<W>::from_parts(vars.to_vec(), W::from128(c)) }).is_some()
}

fn do_add<W: Wd>(a: &Eq, b: &Eq) -> Option<Eq> {
    catch(|| {
        let mut x = unsafe { Modulo2Equation::<W>::from_parts(a.0.clone(), W::from128(a.1)) };
        let y = unsafe { Modulo2Equation::<W>::from_parts(b.0.clone(), W::from128(b.1)) };
        x.add(&y);
        let mut s = Modulo2System::<W>::new(0);
        s.push(x);
        parse_debug(&format!("{:?}", s)).pop().unwrap()
    })
}

/// `None` = panic; otherwise (`Ok(solution)` or `Err`, equations left behind)
fn do_solve<W: Wd>(nv: usize, eqs: &[Eq], lazy: bool) -> Option<(Result<Vec<u128>, ()>, Vec<Eq>)> {
    let mut sys = build::<W>(nv, eqs);
    let r = catch(|| {
        if lazy {
            sys.lazy_gaussian_elimination()
        } else {
            sys.gaussian_elimination()
        }
    });
    r.map(|res| {
        (
            res.map(|v| v.into_iter().map(|x| x.to128()).collect()).map_err(|_| ()),
            parse_debug(&format!("{:?}", sys)),
        )
    })
}

fn do_check<W: Wd>(nv: usize, eqs: &[Eq], sol: &[u128]) -> Option<bool> {
    let sys = build::<W>(nv, eqs);
    let sol: Vec<W> = sol.iter().map(|x| W::from128(*x)).collect();
    catch(|| sys.check(&sol))
}

// ---------------------------------------------------------------- naive oracle

fn strict(v: &[u32]) -> bool {
    v.windows(2).all(|p| p[0] < p[1])
}

fn below(v: &[u32], nv: usize) -> bool {
    v.iter().all(|&x| (x as usize) < nv)
}

/// every equation evaluates to its constant (all variables below `sol.len()`)
fn naive_holds(eqs: &[Eq], sol: &[u128]) -> bool {
    eqs.iter().all(|(v, c)| {
        let mut x = 0u128;
        for &i in v {
            x ^= sol[i as usize];
        }
        x == *c
    })
}

/// `Some(b)`: `check` returns `b`; `None`: it panics
fn naive_check(nv: usize, eqs: &[Eq], sol: &[u128]) -> Option<bool> {
    if sol.len() != nv {
        return None;
    }
    for (v, c) in eqs {
        let mut x = 0u128;
        for &i in v {
            x ^= *sol.get(i as usize)?;
        }
        if x != *c {
            return Some(false);
        }
    }
    Some(true)
}

/// Gauss–Jordan on dense bitset rows; constants as u128 (all bit planes at once)
fn solvable_bitset(nv: usize, eqs: &[Eq]) -> bool {
    let words = nv.div_ceil(64).max(1);
    let mut rows: Vec<(Vec<u64>, u128)> = eqs
        .iter()
        .map(|(v, c)| {
            let mut r = vec![0u64; words];
            for &i in v {
                r[i as usize / 64] ^= 1u64 << (i % 64);
            }
            (r, *c)
        })
        .collect();
    let mut rank = 0;
    for col in 0..nv {
        let Some(p) = (rank..rows.len()).find(|&r| rows[r].0[col / 64] >> (col % 64) & 1 == 1) else {
            continue;
        };
        rows.swap(rank, p);
        let (pr, pc) = rows[rank].clone();
        for (r, row) in rows.iter_mut().enumerate() {
            if r != rank && row.0[col / 64] >> (col % 64) & 1 == 1 {
                for k in 0..words {
                    row.0[k] ^= pr[k];
                }
                row.1 ^= pc;
            }
        }
        rank += 1;
    }
    rows[rank..].iter().all(|(_, c)| *c == 0)
}

/// exhaustive search, one bit plane at a time (`nv <= 12`)
fn solvable_brute(nv: usize, eqs: &[Eq]) -> bool {
    let masks: Vec<u32> = eqs
        .iter()
        .map(|(v, _)| v.iter().fold(0u32, |m, &i| m ^ (1 << i)))
        .collect();
    let all: u128 = eqs.iter().fold(0, |a, e| a | e.1);
    for b in 0..128 {
        if all >> b & 1 == 0 {
            continue;
        }
        let ok = (0u32..1 << nv).any(|x| {
            eqs.iter()
                .zip(&masks)
                .all(|((_, c), m)| ((x & m).count_ones() & 1) as u128 == (c >> b & 1))
        });
        if !ok {
            return false;
        }
    }
    true
}

fn naive_add(a: &Eq, b: &Eq) -> Eq {
    let mut s: std::collections::BTreeSet<u32> = a.0.iter().copied().collect();
    for &x in &b.0 {
        if !s.insert(x) {
            s.remove(&x);
        }
    }
    (s.into_iter().collect(), a.1 ^ b.1)
}

// ---------------------------------------------------------------- executing ops

/// result of the last solver op of the case (for generating `check` arguments)
struct Last {
    sol: Option<Vec<u128>>,
}

fn exec(ctx: &mut Ctx, s: &mut S, lastsol: &mut Last, op: &str) -> String {
    ctx.op(op);
    let t: Vec<&str> = op.split(' ').collect();
    VIA_PARTS.with(|c| c.set(s.parts && t[0] != "system"));
    let reply: String = match t[0] {
        "system" | "system_parts" => {
            s.nv = t[1].parse().unwrap();
            s.w = t[2].parse().unwrap();
            s.eqs.clear();
            s.last = None;
            s.parts = t[0] == "system_parts";
            "ok".into()
        }
        "dims" => {
            let r = match dispatch!(s.w, do_dims, s.nv, &s.eqs) {
                Some((a, b)) => format!("ok {} {}", a, b),
                None => "panic".into(),
            };
            ctx.check_oracle(&format!("ok {} {}", s.nv, s.eqs.len()), &r);
            r
        }
        "eq" => {
            let vars: Vec<u32> = parse_list(t[1]).into_iter().map(|x| x as u32).collect();
            let c: u128 = t[2].parse().unwrap();
            let sorted = vars.windows(2).all(|p| p[0] <= p[1]);
            let ok = dispatch!(s.w, try_eq, &vars, c);
            ctx.check_oracle(if sorted { "ok" } else { "panic" }, if ok { "ok" } else { "panic" });
            if ok {
                s.eqs.push((vars, c));
                "ok".into()
            } else {
                "panic".into()
            }
        }
        "add" => {
            let (i, j): (usize, usize) = (t[1].parse().unwrap(), t[2].parse().unwrap());
            if i >= s.eqs.len() || j >= s.eqs.len() {
                "panic".into()
            } else {
                let r = dispatch!(s.w, do_add, &s.eqs[i], &s.eqs[j]);
                let r = match r {
                    Some((v, c)) => format!("ok {} {}", fmt_list(v.iter()), c),
                    None => "panic".into(),
                };
                if strict(&s.eqs[i].0) && strict(&s.eqs[j].0) {
                    let (v, c) = naive_add(&s.eqs[i], &s.eqs[j]);
                    ctx.check_oracle(&format!("ok {} {}", fmt_list(v.iter()), c), &r);
                }
                r
            }
        }
        "gauss" | "lazy" => {
            let lazy = t[0] == "lazy";
            let r = dispatch!(s.w, do_solve, s.nv, &s.eqs, lazy);
            let wf = s.eqs.iter().all(|(v, _)| strict(v) && below(v, s.nv));
            let nonempty = s.eqs.iter().all(|(v, _)| !v.is_empty());
            let in_domain = wf && (nonempty || (lazy && s.nv > 0));
            let class = match &r {
                Some((Ok(_), _)) => "ok",
                Some((Err(_), _)) => "err",
                None => "panic",
            };
            ctx.stat(&format!("{}:{}:{}", t[0], if in_domain { "dom" } else { "nodom" }, class));
            if in_domain {
                let solvable = solvable_bitset(s.nv, &s.eqs);
                if s.nv <= 12 {
                    ctx.stat("oracle:brute");
                    if solvable_brute(s.nv, &s.eqs) != solvable {
                        ctx.check_oracle("oracles agree", "bitset and brute-force solvability differ");
                    }
                }
                ctx.check_oracle(if solvable { "ok" } else { "err" }, class);
                if let Some((Ok(sol), post)) = &r {
                    if sol.len() != s.nv || !naive_holds(&s.eqs, sol) {
                        ctx.check_oracle("solution satisfies the system", &format!("{:?}", sol));
                    }
                    if post.iter().any(|(v, _)| !below(v, s.nv)) || !naive_holds(post, sol) {
                        ctx.check_oracle("solution satisfies the equations left behind", &format!("{:?}", sol));
                    }
                }
                if let Some((_, post)) = &r {
                    if post.len() != s.eqs.len() || post.iter().any(|(v, _)| !strict(v) || !below(v, s.nv)) {
                        ctx.check_oracle("equations left behind well formed", &fmt_eqs(post));
                    }
                }
            }
            match r {
                Some((Ok(sol), post)) => {
                    let rep = format!("ok {} {}", fmt_list(sol.iter()), fmt_eqs(&post));
                    lastsol.sol = Some(sol);
                    s.last = Some(post);
                    rep
                }
                Some((Err(_), post)) => {
                    let rep = format!("err {}", fmt_eqs(&post));
                    s.last = Some(post);
                    rep
                }
                None => "panic".into(),
            }
        }
        "keep" => match s.last.clone() {
            Some(e) => {
                s.eqs = e;
                "ok".into()
            }
            None => "none".into(),
        },
        "check" => {
            let sol = parse_list(t[1]);
            let r = dispatch!(s.w, do_check, s.nv, &s.eqs, &sol);
            let f = |x: Option<bool>| match x {
                Some(b) => format!("ok {}", b01(b)),
                None => "panic".to_string(),
            };
            let (e, g) = (f(naive_check(s.nv, &s.eqs, &sol)), f(r));
            ctx.check_oracle(&e, &g);
            g
        }
        _ => panic!("unknown op {}", op),
    };
    ctx.reply(&reply);
    reply
}

// ---------------------------------------------------------------- generation

fn wmask(w: u32) -> u128 {
    if w >= 128 {
        u128::MAX
    } else {
        (1u128 << w) - 1
    }
}

/// a constant of `w` bits: narrow, wide, extreme
fn gen_const(ctx: &mut Ctx, w: u32, style: u64) -> u128 {
    let m = wmask(w);
    match style {
        0 => ctx.rng.below(2) as u128,
        1 => ctx.rng.below(4) as u128 & m,
        2 => (((ctx.rng.next_u64() as u128) << 64) | ctx.rng.next_u64() as u128) & m,
        3 => *ctx.rng.pick(&[0u128, m, 1, m ^ 1, 1u128 << (w - 1)]),
        _ => (((ctx.rng.word() as u128) << 64) | ctx.rng.word() as u128) & m,
    }
}

/// `k` distinct variables below `nv`, increasing
fn gen_vars(ctx: &mut Ctx, nv: usize, k: usize) -> Vec<u32> {
    let k = k.min(nv);
    let mut s = std::collections::BTreeSet::new();
    while s.len() < k {
        s.insert(ctx.rng.usize_below(nv) as u32);
    }
    s.into_iter().collect()
}

fn xor_eq(a: &Eq, b: &Eq) -> Eq {
    naive_add(a, b)
}

const NVS: &[usize] = &[1, 1, 2, 3, 4, 5, 6, 8, 10, 12, 13, 16, 20, 31, 32, 33, 50, 63, 64, 65, 100, 128, 150, 200];

/// (kind, num_vars, W, equations): in-domain unless `kind` starts with "mal"
fn gen_system(ctx: &mut Ctx) -> (String, usize, u32, Vec<Eq>) {
    let w = *ctx.rng.pick(&[8u32, 8, 8, 16, 32, 64, 64, 64, 128]);
    let cstyle = ctx.rng.below(5);
    let big = ctx.tier == Tier::Thorough || ctx.rng.chance(1, 6);
    let mut nv = *ctx.rng.pick(NVS);
    if !big && nv > 40 && ctx.rng.chance(2, 3) {
        nv = 1 + ctx.rng.usize_below(40);
    }
    let kind = ctx.rng.below(12);
    if kind <= 2 {
        nv = nv.max(3);
    }
    // planted solution: constants derived from a random assignment (always solvable)
    let planted: Option<Vec<u128>> = if ctx.rng.chance(1, 2) {
        Some((0..nv).map(|_| gen_const(ctx, w, cstyle)).collect())
    } else {
        None
    };
    let mk = |ctx: &mut Ctx, vars: Vec<u32>| -> Eq {
        let c = match &planted {
            Some(p) => vars.iter().fold(0u128, |a, &v| a ^ p[v as usize]),
            None => gen_const(ctx, w, cstyle),
        };
        (vars, c)
    };
    let mut eqs: Vec<Eq> = vec![];
    let name = match kind {
        0 | 1 | 2 => {
            // 3-regular, shaped like an unpeeled core: m/n between 0.7 and 1.15
            let nv3 = nv;
            let m = (nv3 as u64 * (70 + ctx.rng.below(46)) / 100) as usize;
            for _ in 0..m.min(250) {
                let v = gen_vars(ctx, nv3, 3);
                eqs.push(mk(ctx, v));
            }
            "core3"
        }
        3 | 4 => {
            // sparse, 1..5 variables per row
            let m = ctx.rng.usize_below((nv * 3 / 2 + 2).min(251));
            for _ in 0..m {
                let k = 1 + ctx.rng.usize_below(5);
                let v = gen_vars(ctx, nv, k);
                eqs.push(mk(ctx, v));
            }
            "sparse"
        }
        5 => {
            // dense rows
            let m = ctx.rng.usize_below((nv + 3).min(120));
            for _ in 0..m {
                let k = 1 + ctx.rng.usize_below(nv);
                let v = gen_vars(ctx, nv, k);
                eqs.push(mk(ctx, v));
            }
            "dense"
        }
        6 => {
            // single-variable rows and pairs
            let m = ctx.rng.usize_below((2 * nv + 2).min(251));
            for _ in 0..m {
                let k = 1 + ctx.rng.usize_below(2);
                let v = gen_vars(ctx, nv, k);
                eqs.push(mk(ctx, v));
            }
            "single"
        }
        7 | 8 => {
            // few variables used out of many; chains x_i + x_{i+1}
            let used = 1 + ctx.rng.usize_below(nv.min(30));
            let off = ctx.rng.usize_below(nv - used + 1);
            let m = ctx.rng.usize_below(2 * used + 2);
            for _ in 0..m {
                let k = 1 + ctx.rng.usize_below(3);
                let v: Vec<u32> = gen_vars(ctx, used, k).into_iter().map(|x| x + off as u32).collect();
                eqs.push(mk(ctx, v));
            }
            "unused"
        }
        _ => {
            // base rows, then linear combinations (dependent rows), repeated rows
            let base = 1 + ctx.rng.usize_below(nv.min(40));
            for _ in 0..base {
                let k = 1 + ctx.rng.usize_below(4);
                let v = gen_vars(ctx, nv, k);
                eqs.push(mk(ctx, v));
            }
            let extra = ctx.rng.usize_below(base + 3);
            for _ in 0..extra {
                let mut acc: Eq = (vec![], 0);
                let terms = 1 + ctx.rng.usize_below(4);
                for _ in 0..terms {
                    let r = ctx.rng.usize_below(base);
                    acc = xor_eq(&acc, &eqs[r]);
                }
                if !acc.0.is_empty() {
                    eqs.push(acc);
                }
            }
            "dependent"
        }
    };
    // contradictions: flip constants of some rows / duplicate a row with another constant
    let mut tag = String::new();
    if !eqs.is_empty() && ctx.rng.chance(1, 3) {
        let r = ctx.rng.usize_below(eqs.len());
        let flip = match gen_const(ctx, w, cstyle) {
            0 => 1,
            x => x,
        };
        if ctx.rng.bool() {
            eqs[r].1 ^= flip;
            tag.push_str("+flip");
        } else {
            let mut e = eqs[r].clone();
            e.1 ^= flip;
            let at = ctx.rng.usize_below(eqs.len() + 1);
            eqs.insert(at, e);
            tag.push_str("+contra");
        }
    }
    if !eqs.is_empty() && ctx.rng.chance(1, 4) {
        for _ in 0..1 + ctx.rng.usize_below(3) {
            let e = eqs[ctx.rng.usize_below(eqs.len())].clone();
            let at = ctx.rng.usize_below(eqs.len() + 1);
            eqs.insert(at, e);
        }
        tag.push_str("+rep");
    }
    if ctx.rng.chance(1, 5) {
        // random order
        for i in (1..eqs.len()).rev() {
            let j = ctx.rng.usize_below(i + 1);
            eqs.swap(i, j);
        }
        tag.push_str("+shuf");
    }
    eqs.truncate(250);
    // out-of-domain stream
    if ctx.rng.chance(1, 8) {
        let at = ctx.rng.usize_below(eqs.len() + 1);
        match ctx.rng.below(6) {
            0 => {
                let c = if ctx.rng.bool() { 0 } else { gen_const(ctx, w, 3) };
                eqs.insert(at, (vec![], c));
                tag.push_str("+mal-empty");
            }
            1 => {
                let mut v = gen_vars(ctx, nv, 2);
                v.push(nv as u32 + ctx.rng.below(3) as u32);
                eqs.insert(at, (v, gen_const(ctx, w, cstyle)));
                tag.push_str("+mal-range");
            }
            2 => {
                let mut v = gen_vars(ctx, nv, 3);
                let d = v[ctx.rng.usize_below(v.len())];
                v.push(d);
                v.sort();
                eqs.insert(at, (v, gen_const(ctx, w, cstyle)));
                tag.push_str("+mal-dup");
            }
            3 => {
                let mut v = gen_vars(ctx, nv.max(2), 2);
                if v.len() == 2 {
                    v.swap(0, 1);
                }
                eqs.insert(at, (v, gen_const(ctx, w, cstyle)));
                tag.push_str("+mal-unsorted");
            }
            4 => {
                // only empty rows
                eqs = (0..1 + ctx.rng.usize_below(3)).map(|_| (vec![], ctx.rng.below(2) as u128)).collect();
                if ctx.rng.bool() {
                    nv = 0;
                }
                tag.push_str("+mal-allempty");
            }
            _ => {
                eqs.push((vec![], 0));
                tag.push_str("+mal-lastempty");
            }
        }
    }
    (format!("{}{}", name, tag), nv, w, eqs)
}

fn bucket(n: usize) -> &'static str {
    match n {
        0 => "0",
        1 => "1",
        2..=4 => "2-4",
        5..=12 => "5-12",
        13..=40 => "13-40",
        41..=100 => "41-100",
        _ => ">100",
    }
}

fn run_system(ctx: &mut Ctx, kind: &str, nv: usize, w: u32, eqs: &[Eq], extra: bool) {
    ctx.case();
    let mut s = fresh();
    let mut last = Last { sol: None };
    // one system in three is assembled with the unsafe constructor `Modulo2System::from_parts`
    let ctor = if (nv + eqs.len()) % 3 == 1 { "system_parts" } else { "system" };
    exec(ctx, &mut s, &mut last, &format!("{} {} {}", ctor, nv, w));
    exec(ctx, &mut s, &mut last, "dims");
    for (v, c) in eqs {
        exec(ctx, &mut s, &mut last, &format!("eq {} {}", fmt_list(v.iter()), c));
    }
    exec(ctx, &mut s, &mut last, "dims");
    let n = s.eqs.len();
    let mut classes = vec![];
    let order: &[&str] = if ctx.rng.bool() { &["gauss", "lazy"] } else { &["lazy", "gauss"] };
    for o in order {
        let r = exec(ctx, &mut s, &mut last, o);
        classes.push(format!("{}={}", o, r.split(' ').next().unwrap()));
        // the returned solution, a perturbation, a random / short vector
        if let Some(sol) = last.sol.clone() {
            exec(ctx, &mut s, &mut last, &format!("check {}", fmt_list(sol.iter())));
            if !sol.is_empty() && ctx.rng.chance(1, 2) {
                let mut p = sol.clone();
                let i = ctx.rng.usize_below(p.len());
                p[i] ^= 1u128 << ctx.rng.below(w as u64);
                exec(ctx, &mut s, &mut last, &format!("check {}", fmt_list(p.iter())));
            }
        }
        last.sol = None;
    }
    if extra {
        if n >= 2 {
            for _ in 0..1 + ctx.rng.usize_below(3) {
                let (i, j) = (ctx.rng.usize_below(n), ctx.rng.usize_below(n));
                exec(ctx, &mut s, &mut last, &format!("add {} {}", i, j));
            }
        }
        if ctx.rng.chance(1, 3) {
            let len = if ctx.rng.chance(1, 4) { nv + 1 - 2 * ctx.rng.usize_below(2).min(nv) } else { nv };
            let v: Vec<u128> = (0..len).map(|_| gen_const(ctx, w, 4)).collect();
            exec(ctx, &mut s, &mut last, &format!("check {}", fmt_list(v.iter())));
        }
        if ctx.rng.chance(1, 3) {
            // solve the system left behind by the last solver (echelon / lazily reduced form)
            let r = exec(ctx, &mut s, &mut last, "keep");
            if r == "ok" {
                let o = if ctx.rng.bool() { "gauss" } else { "lazy" };
                let r = exec(ctx, &mut s, &mut last, o);
                classes.push(format!("keep:{}={}", o, r.split(' ').next().unwrap()));
                if let Some(sol) = last.sol.clone() {
                    exec(ctx, &mut s, &mut last, &format!("check {}", fmt_list(sol.iter())));
                }
            }
        }
    }
    ctx.shape(format!("{}:nv{}:m{}:w{}:{}", kind, bucket(nv), bucket(n), w, classes.join(",")));
}

/// hand-listed systems hitting every branch of the model, independent of the seed
fn directed(ctx: &mut Ctx) {
    let e = |v: &[u32], c: u128| -> Eq { (v.to_vec(), c) };
    let cases: Vec<(&str, usize, u32, Vec<Eq>)> = vec![
        ("d:empty0", 0, 64, vec![]),
        ("d:empty3", 3, 8, vec![]),
        ("d:one", 2, 64, vec![e(&[0], 3)]),
        ("d:one-last", 2, 8, vec![e(&[1], 255)]),
        ("d:impossible", 1, 64, vec![e(&[0], 0), e(&[0], 1)]),
        ("d:redundant", 1, 64, vec![e(&[0], 0), e(&[0], 0)]),
        (
            "d:small",
            11,
            64,
            vec![e(&[1, 4, 10], 0), e(&[1, 4, 9], 2), e(&[0, 6, 8], 0), e(&[0, 6, 9], 1), e(&[2, 4, 8], 2), e(&[2, 6, 10], 0)],
        ),
        // echelon: swap (leading variable of a later row smaller), add, identity, contradiction
        ("d:swap", 4, 8, vec![e(&[2, 3], 1), e(&[1, 2], 2), e(&[0, 1], 4)]),
        ("d:addchain", 4, 8, vec![e(&[0, 1], 1), e(&[0, 2], 2), e(&[0, 3], 4), e(&[0, 1, 2, 3], 7)]),
        ("d:ident-mid", 3, 8, vec![e(&[0, 1], 1), e(&[0, 1], 1), e(&[1, 2], 2), e(&[2], 5)]),
        ("d:contra-mid", 3, 8, vec![e(&[1, 2], 1), e(&[0, 1], 1), e(&[0, 2], 1)]),
        ("d:dep-ok", 3, 8, vec![e(&[1, 2], 1), e(&[0, 1], 2), e(&[0, 2], 3)]),
        ("d:triple", 3, 16, vec![e(&[0, 1, 2], 9), e(&[0, 1, 2], 9), e(&[0, 1, 2], 9)]),
        ("d:triple-bad", 3, 16, vec![e(&[0, 1, 2], 9), e(&[0, 1, 2], 9), e(&[0, 1, 2], 8)]),
        // lazy: everything peels (priority-1 chain), no dense part
        ("d:chain", 5, 32, vec![e(&[0], 1), e(&[0, 1], 2), e(&[1, 2], 4), e(&[2, 3], 8), e(&[3, 4], 16)]),
        // lazy: nothing peels at first, variables become active by weight, dense part non-empty
        (
            "d:k4",
            4,
            128,
            vec![e(&[0, 1, 2], 1), e(&[0, 1, 3], 2), e(&[0, 2, 3], 4), e(&[1, 2, 3], 8), e(&[0, 1, 2, 3], 15)],
        ),
        (
            "d:k4-bad",
            4,
            128,
            vec![e(&[0, 1, 2], 1), e(&[0, 1, 3], 2), e(&[0, 2, 3], 4), e(&[1, 2, 3], 8), e(&[0, 1, 2, 3], 14), e(&[0, 1], 0), e(&[2, 3], 1)],
        ),
        // lazy: dense part unsolvable / contains identities; unused variables of weight 0
        ("d:dense-bad", 6, 8, vec![e(&[1, 2], 1), e(&[2, 4], 1), e(&[1, 4], 1)]),
        ("d:dense-dup", 6, 8, vec![e(&[1, 2], 1), e(&[2, 4], 1), e(&[1, 4], 0), e(&[1, 2], 1), e(&[1, 2, 4], 3)]),
        ("d:dense-dup-bad", 6, 8, vec![e(&[1, 2], 1), e(&[2, 4], 1), e(&[1, 4], 0), e(&[1, 2], 3)]),
        (
            "d:fano",
            7,
            8,
            vec![e(&[0, 1, 2], 1), e(&[0, 3, 4], 1), e(&[0, 5, 6], 1), e(&[1, 3, 5], 1), e(&[1, 4, 6], 1), e(&[2, 3, 6], 1), e(&[2, 4, 5], 1)],
        ),
        (
            "d:fano-ok",
            7,
            8,
            vec![e(&[0, 1, 2], 0), e(&[0, 3, 4], 3), e(&[0, 5, 6], 5), e(&[1, 3, 5], 6), e(&[1, 4, 6], 0), e(&[2, 3, 6], 5), e(&[2, 4, 5], 3)],
        ),
        // lazy: a pivot of maximal weight is skipped when variables are activated later
        ("d:skip", 3, 8, vec![e(&[0], 1), e(&[0, 1, 2], 2), e(&[0, 1, 2], 2)]),
        ("d:skip-bad", 3, 8, vec![e(&[0], 1), e(&[0, 1, 2], 2), e(&[0, 1, 2], 3)]),
        (
            "d:skip2",
            6,
            16,
            vec![e(&[5], 7), e(&[1, 2, 5], 1), e(&[2, 3, 5], 2), e(&[1, 3, 5], 3), e(&[0, 4], 9), e(&[0, 1, 4], 9)],
        ),
        ("d:wide", 3, 128, vec![e(&[0, 2], u128::MAX), e(&[1, 2], 1u128 << 127), e(&[0, 1], u128::MAX ^ (1u128 << 127))]),
        // out of domain
        ("d:mal-empty-first", 2, 8, vec![e(&[], 0), e(&[0], 1)]),
        ("d:mal-empty-last", 2, 8, vec![e(&[0], 1), e(&[], 0)]),
        ("d:mal-empty-only0", 2, 8, vec![e(&[], 0)]),
        ("d:mal-empty-only1", 2, 8, vec![e(&[], 1)]),
        ("d:mal-empty-mid", 3, 8, vec![e(&[0, 1], 1), e(&[], 0), e(&[1, 2], 1)]),
        ("d:mal-empty-bad", 3, 8, vec![e(&[0, 1], 1), e(&[1, 2], 1), e(&[], 2)]),
        ("d:mal-nv0", 0, 8, vec![e(&[], 0)]),
        ("d:mal-nv0-bad", 0, 8, vec![e(&[], 1)]),
        ("d:mal-range", 2, 8, vec![e(&[0, 2], 1)]),
        ("d:mal-range2", 2, 8, vec![e(&[0, 1], 1), e(&[1, 5], 1)]),
        ("d:mal-range-lead", 2, 8, vec![e(&[7], 1)]),
        ("d:mal-dup", 3, 8, vec![e(&[1, 1, 2], 1), e(&[1, 2], 0)]),
        ("d:mal-dup2", 3, 8, vec![e(&[0, 0], 1), e(&[0, 0], 1), e(&[0, 0], 1)]),
        ("d:mal-dup3", 2, 8, vec![e(&[0, 0, 0], 1)]),
        ("d:mal-unsorted", 3, 8, vec![e(&[2, 1], 1), e(&[0, 1], 1)]),
    ];
    for (k, nv, w, eqs) in &cases {
        run_system(ctx, k, *nv, *w, eqs, true);
        // the same rows in reverse order
        let mut r = eqs.clone();
        r.reverse();
        run_system(ctx, &format!("{}:rev", k), *nv, *w, &r, false);
    }
    // check: wrong length, false before a row that would panic, true
    ctx.case();
    let mut s = fresh();
    let mut last = Last { sol: None };
    for o in [
        "system 3 8", "check []", "check [0,0,0]", "eq [0,1] 1", "eq [1,7] 0", "check [0,0,0]", "check [1,0,0]", "check [1,0]",
        "check [1,0,0,0]", "add 0 1", "add 1 0", "add 0 0", "add 0 5", "keep", "gauss", "keep", "lazy",
    ] {
        exec(ctx, &mut s, &mut last, o);
    }
    ctx.shape("d:check".into());
    wide_adds(ctx);
    long_equations(ctx);
}

/// equations with 255, 256, 257 and 300 variables (a counter of idle variables kept in a byte would
/// wrap): one long row sharing variables with short ones, solvable and unsolvable twins
fn long_equations(ctx: &mut Ctx) {
    for m in [255usize, 256, 257, 300] {
        let nv = m + 1;
        // E: x1 + … + xm = cE ; H: x0 + x1 = cH ; G: x2 = cG ; K: x0 + x2 + x3 = cK
        let e_vars: Vec<u32> = (1..=m as u32).collect();
        for (k, consts) in [(0usize, [165u128, 1, 7, 9]), (1, [0, 0, 0, 0]), (2, [1, 1, 1, 1])] {
            let eqs: Vec<Eq> = vec![
                (e_vars.clone(), consts[0]),
                (vec![0, 1], consts[1]),
                (vec![2], consts[2]),
                (vec![0, 2, 3], consts[3]),
            ];
            run_system(ctx, &format!("d:long-eq:{}:{}", m, k), nv, 8, &eqs, true);
            let mut r = eqs.clone();
            r.reverse();
            run_system(ctx, &format!("d:long-eq:{}:{}:rev", m, k), nv, 8, &r, false);
        }
        // two long rows that overlap in all but their first variable
        let a: Vec<u32> = (0..m as u32).collect();
        let b: Vec<u32> = (1..=m as u32).collect();
        run_system(ctx, &format!("d:long-eq2:{}", m), nv, 8, &[(a.clone(), 3), (b.clone(), 5), (vec![0], 1)], true);
        run_system(ctx, &format!("d:long-eq2u:{}", m), nv, 8, &[(a, 3), (b, 5), (vec![0, m as u32], 1)], false);
    }
}

/// `add` over the whole range of `u32` variable indices (no solver call, hence no allocation
/// proportional to `num_vars`): pairs of indices that differ by 2^31 or more, indices with the top
/// bit set, u32::MAX.  The merge in `Modulo2Equation::add` compares indices; a comparison through
/// a signed difference or a narrower type only shows here.
fn wide_adds(ctx: &mut Ctx) {
    const H: u64 = 1 << 31;
    let pool: Vec<u64> = vec![
        0, 1, 2, 3, 4, 5, H - 2, H - 1, H, H + 1, H + 5, H + (1 << 30), (1 << 30), (1 << 30) + 7, (1u64 << 32) - 2, (1u64 << 32) - 1,
        3 * (1 << 30), 3 * (1 << 30) + 1,
    ];
    let rounds = if ctx.tier == Tier::Quick { 40 } else { 400 };
    for r in 0..rounds {
        ctx.case();
        let mut s = fresh();
        let mut last = Last { sol: None };
        let w = *ctx.rng.pick(&[8u32, 16, 32, 64, 128]);
        exec(ctx, &mut s, &mut last, &format!("system 4294967295 {}", w));
        let neq = 2 + ctx.rng.usize_below(3);
        for _ in 0..neq {
            let k = 1 + ctx.rng.usize_below(5);
            let mut vs: Vec<u64> = (0..k).map(|_| *ctx.rng.pick(&pool)).collect();
            if r % 3 == 0 {
                // a shared leading variable, as elimination produces
                vs.push(0);
            }
            vs.sort();
            vs.dedup();
            let c = ctx.rng.below(256);
            exec(ctx, &mut s, &mut last, &format!("eq {} {}", fmt_list(vs.iter()), c));
        }
        for i in 0..neq {
            for j in 0..neq {
                exec(ctx, &mut s, &mut last, &format!("add {} {}", i, j));
            }
        }
        ctx.shape(format!("d:wide-add:{}", w));
    }
    // the systems of a far-apart elimination step, spelled out
    ctx.case();
    let mut s = fresh();
    let mut last = Last { sol: None };
    for o in [
        "system 4294967295 8", "eq [0,2147483653] 165", "eq [0,3,4] 0", "eq [3,2147483653] 0", "add 0 1", "add 1 0", "add 0 2",
        "add 2 0", "add 1 2", "eq [2147483647,2147483648] 1", "eq [0,4294967294] 2", "add 3 4", "add 4 3", "add 3 0",
    ] {
        exec(ctx, &mut s, &mut last, o);
    }
    ctx.shape("d:wide-add:spelled".into());
}

pub fn run(ctx: &mut Ctx) {
    directed(ctx);
    let n = if ctx.tier == Tier::Quick { 4000 } else { 40000 };
    for _ in 0..n {
        let (kind, nv, w, eqs) = gen_system(ctx);
        run_system(ctx, &kind, nv, w, &eqs, true);
    }
}

/// re-execute the ops of a replay file
pub fn replay(ctx: &mut Ctx, lines: &[String]) {
    let mut s = fresh();
    let mut last = Last { sol: None };
    for l in lines {
        if l.starts_with("case ") {
            ctx.op(l);
            ctx.reply("case");
            s = fresh();
        } else {
            exec(ctx, &mut s, &mut last, l);
        }
    }
}
