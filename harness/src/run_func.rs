//! Runner `func` (C07, C08, C17): real `VBuilder` builds of `VFunc` / `VFilter` in many
//! configurations, certificate export and per-key equation checking, false-positive
//! measurement, fault enumeration (failing lenders, failing rewinds, duplicate keys), D18.
//!
//! Protocol (mirrored by `SuxModel/Func/Runner.lean`); tokens are `key=value`:
//!   build <func|filter> kt= w= be= sw= lg= lk= n= ks= vs= fb= off= lm= th= eps= lb= seed= hint=
//!         dups= dd= short= fault= att=
//!         -> ok | err <DuplicateKey|DuplicateLocalSignatures|ValueTooLarge|io|other> | panic | timeout
//!      kt  key type: usize u64 u8 u128 string strref str      w  value word: 8 16 32 64 size
//!      be  backend: box bfv      sw  signature words 1|2      lg  shards|noshards|fullsigs
//!          (`lg=mwhc` = `Mwhc3Shards`, feature `mwhc`, directed section J only: no `parts`/`get`, sampled `qbig`)
//!      lk  key lender: vec (instrumented) | fii (FromIntoIterator) | line (LineLender)
//!      ks  key set: seq:<start> | rnd:<seed> | perm:<seed>    vs  values: id|zero|ones|rnd:<s>|rndb:<bits>:<s>
//!      fb  filter bits (bfv filters) or `-`    off/lm/th/eps/lb/seed/hint/dups: builder setters (`-` = unset)
//!      dd  duplicates `dst>src,...` (key[dst] := key[src]) or `-`    short=1: one value less than keys
//!      fault  none | k:<pass>:<idx> | v:<pass>:<idx> | rk:<nth rewind> | rv:<nth rewind>
//!      att  number of attempts of the unfaulted build (from a silent probing run) or `-`
//!   build_take <same tokens>   keys = FromIntoIterator::from(0..2n).take(n)     -> ok <len> | err .. | ..
//!   parts <lg> <sw> <shift> <log2seg> <l> <seed> <n> <bw> <[cells]>           -> ok <number of cells>
//!   len | hash_bits | mask                                                     -> ok <v>
//!   attempts            calls of try_seed in the last build (instrumented lender)  -> ok <k>
//!   get <s0> <s1> | getu <s0> <s1>          (member keys: the real `get(key)` / `get_unaligned(key)` of the
//!                       function or filter; else `get_by_sig` / `get_by_sig_unaligned`)          -> ok <v>
//!                       (`contains*` likewise: `contains(key)`, `contains_unaligned(key)`, `filter[key]`)
//!   contains|containsu|index <s0> <s1>                                         -> ok <0|1>
//!   fp <b> <probes>     false-positive count over non-member keys vs 6-sigma band -> ok in-band | ok out-of-band
//!   solve [idx|high|low] <[s0,s1,val,...]>  unsharded function builds: peel + assign recomputed by
//!                       the model with the named peeler (idx = peel_by_index under lge_shard, the
//!                       default; high / low = peel_by_sig_vals_{high,low}_mem); the generator names the
//!                       peeler the real build used (`peel_mode`) and, for small n, also the other two
//!                       (all three visit the vertices in the same order, so the cells coincide);
//!                       impl: real cells if the (naively computed) 2-core is empty -> ok peeled <[cells]> | ok core <k>
//!   solve lge:<b>:<d> <[..]>  the whole of lge_shard (peel_by_index, system of the unpeeled edges,
//!                       lazy Gaussian elimination, assignment) on the shard in the order the worker
//!                       sees it: keys bucketed by the top b = log2_buckets bits of sig[0], sorted by
//!                       signature if d = check_dups, then count_sort; impl: the real cells -> ok peeled <[cells]>
//!   qbig <count>        sampled member queries of a big build (no parts)       -> ok <number wrong>
//!   crafted_empty_shard <n> <empty_shard|-> <threads>   directed search case for defect D31 (par_solve worker
//!                       `return`ed on an empty shard): Mwhc3Shards, eps 0.01, builder seed 0, n keys crafted
//!                       against the first-attempt seed so that 127 (or 128 with `-`) of the 128 shards hold
//!                       exactly n/127 (n/128) keys and shard <empty_shard> none; >= 1000 keys per shard queried
//!                       -> ok shards=<S> wrong=<count> first_wrong_shard=<k|-> | err <n|bits|guard|build|nomwhc>
//!                       (the Lean runner answers `unmodelled`; the oracle expects wrong=0)
//! The naive oracle knows the key/value lists and expects: `ok` for duplicate-free builds,
//! `err` for duplicates with check_dups / injected faults that are reached, the stored value
//! for every member `get`, `1` for member `contains`, `len = n`, `hash_bits = b`.
use crate::common::*;
use common_traits::{CastableInto, DowncastableFrom};
use dsi_progress_logger::*;
use epserde::prelude::*;
use lender::*;
use std::borrow::Borrow;
use std::collections::{HashMap, HashSet};
use std::io;
use std::marker::PhantomData;
use std::sync::atomic::{AtomicUsize, Ordering};
use std::sync::{mpsc, Arc};
use std::time::Duration;
use sux::bits::BitFieldVec;
use sux::dict::VFilter;
use sux::func::shard_edge::{FuseLge3FullSigs, FuseLge3NoShards, FuseLge3Shards, ShardEdge};
use sux::func::{BuildError, VBuilder, VFunc};
use sux::traits::bit_field_slice::*;
use sux::utils::{FromIntoIterator, LineLender, RewindableIoLender, Sig, ToSig};

const BUILD_TIMEOUT_SECS: u64 = 900; // generous: a loaded machine must not turn a slow build into a false alarm
const PARTS_MAX_N: usize = 5000;
const SOLVE_MAX_N: usize = 2000;

// ---------------------------------------------------------------------------------------------
// small deterministic PRNG for key/value sets (independent of ctx.rng so that a `build` line
// describes its data completely)
fn sm64(state: &mut u64) -> u64 {
    *state = state.wrapping_add(0x9E3779B97F4A7C15);
    let mut z = *state;
    z = (z ^ (z >> 30)).wrapping_mul(0xBF58476D1CE4E5B9);
    z = (z ^ (z >> 27)).wrapping_mul(0x94D049BB133111EB);
    z ^ (z >> 31)
}

/// naive copy of the MurmurHash3 finaliser (oracle side)
fn mix64_oracle(mut k: u64) -> u64 {
    k ^= k >> 33;
    k = k.wrapping_mul(0xff51_afd7_ed55_8ccd);
    k ^= k >> 33;
    k = k.wrapping_mul(0xc4ce_b9fe_1a85_ec53);
    k ^= k >> 33;
    k
}

// ---------------------------------------------------------------------------------------------
// type vocabulary

pub trait WordT:
    Word + ZeroCopy + Send + Sync + 'static + DowncastableFrom<u64> + Copy + std::fmt::Debug
{
    const WBITS: usize;
    fn to64(self) -> u64;
    fn from64(x: u64) -> Self;
}
macro_rules! wordt {
    ($($t:ty),*) => {$(
        impl WordT for $t {
            const WBITS: usize = <$t>::BITS as usize;
            fn to64(self) -> u64 { self as u64 }
            fn from64(x: u64) -> Self { x as $t }
        }
    )*};
}
wordt!(u8, u16, u32, u64, usize);

pub trait SigT: Sig + ZeroCopy + Send + Sync + Copy + 'static {
    fn from2(s0: u64, s1: u64) -> Self;
    fn to2(&self) -> (u64, u64);
}
impl SigT for [u64; 1] {
    fn from2(s0: u64, _s1: u64) -> Self {
        [s0]
    }
    fn to2(&self) -> (u64, u64) {
        (self[0], 0)
    }
}
impl SigT for [u64; 2] {
    fn from2(s0: u64, s1: u64) -> Self {
        [s0, s1]
    }
    fn to2(&self) -> (u64, u64) {
        (self[0], self[1])
    }
}

/// key kinds: `K` is the owned key stored in the key list, `T` the (possibly unsized) key type
/// of the function
pub trait KeyKind: Send + Sync + 'static {
    type T: ?Sized + Send + Sync + std::fmt::Debug + ToSig<[u64; 1]> + ToSig<[u64; 2]>;
    type K: Borrow<Self::T> + Clone + Send + Sync + 'static;
    fn from_id(id: u64) -> Self::K;
}
pub struct KUsize;
pub struct KU64;
pub struct KU8;
pub struct KU128;
pub struct KString;
pub struct KStrRef;
pub struct KStr;
impl KeyKind for KUsize {
    type T = usize;
    type K = usize;
    fn from_id(id: u64) -> usize {
        id as usize
    }
}
impl KeyKind for KU64 {
    type T = u64;
    type K = u64;
    fn from_id(id: u64) -> u64 {
        id
    }
}
impl KeyKind for KU8 {
    type T = u8;
    type K = u8;
    fn from_id(id: u64) -> u8 {
        id as u8
    }
}
impl KeyKind for KU128 {
    type T = u128;
    type K = u128;
    fn from_id(id: u64) -> u128 {
        ((id as u128) << 64) | (id.wrapping_mul(0x9E3779B97F4A7C15) as u128)
    }
}
fn string_of_id(id: u64) -> String {
    // lengths cross the xxh3 regime boundaries (16, 128, 240 bytes); id 0 is the empty string
    match id % 5 {
        0 if id == 0 => String::new(),
        0 => format!("{}", id),
        1 => format!("key-{:020}", id),
        2 => format!("{}{}", "x".repeat(130), id),
        3 => format!("{}{}", "longer than two hundred and forty bytes ".repeat(7), id),
        _ => format!("k{}", id),
    }
}
impl KeyKind for KString {
    type T = String;
    type K = String;
    fn from_id(id: u64) -> String {
        string_of_id(id)
    }
}
impl KeyKind for KStrRef {
    type T = &'static str;
    type K = &'static str;
    fn from_id(id: u64) -> &'static str {
        Box::leak(string_of_id(id).into_boxed_str())
    }
}
/// slice keys (`&[u32]`, hashed through the crate's `to_sig_slice!` impls): the distinguishing
/// elements come LAST (the first two are the same for every key), lengths 3..=6
pub struct KSliceU32;
impl KeyKind for KSliceU32 {
    type T = &'static [u32];
    type K = &'static [u32];
    fn from_id(id: u64) -> &'static [u32] {
        let mut v: Vec<u32> = vec![7, 0xFFFF_FFFF];
        for _ in 0..(id % 3) {
            v.push(0);
        }
        v.push(id as u32);
        v.push((id >> 32) as u32 ^ (id % 3) as u32);
        Box::leak(v.into_boxed_slice())
    }
}
impl KeyKind for KStr {
    type T = str;
    type K = String;
    fn from_id(id: u64) -> String {
        string_of_id(id)
    }
}

pub trait Backend<W: WordT>: BitFieldSlice<W> + Send + Sync + 'static {
    const BFV: bool;
    fn unaligned_ok(&self) -> bool;
    fn gbsu<T: ?Sized + ToSig<S>, S: Sig, E: ShardEdge<S, 3>>(
        f: &VFunc<T, W, Self, S, E>,
        sig: S,
    ) -> W
    where
        Self: Sized;
    fn cbsu<T: ?Sized + ToSig<S>, S: Sig, E: ShardEdge<S, 3>>(
        f: &VFilter<W, VFunc<T, W, Self, S, E>>,
        sig: S,
    ) -> bool
    where
        Self: Sized;
    /// `VFunc::get_unaligned(key)`
    fn gu<T: ?Sized + ToSig<S>, S: Sig, E: ShardEdge<S, 3>>(f: &VFunc<T, W, Self, S, E>, key: &T) -> W
    where
        Self: Sized;
    /// `VFilter::get_by_sig_unaligned(sig)`
    fn fgbsu<T: ?Sized + ToSig<S>, S: Sig, E: ShardEdge<S, 3>>(
        f: &VFilter<W, VFunc<T, W, Self, S, E>>,
        sig: S,
    ) -> W
    where
        Self: Sized;
    /// `VFilter::get_unaligned(key)`
    fn fgu<T: ?Sized + ToSig<S>, S: Sig, E: ShardEdge<S, 3>>(
        f: &VFilter<W, VFunc<T, W, Self, S, E>>,
        key: &T,
    ) -> W
    where
        Self: Sized;
    /// `VFilter::contains_unaligned(key)`
    fn cu<T: ?Sized + ToSig<S>, S: Sig, E: ShardEdge<S, 3>>(
        f: &VFilter<W, VFunc<T, W, Self, S, E>>,
        key: &T,
    ) -> bool
    where
        Self: Sized;
}
impl<W: WordT> Backend<W> for Box<[W]>
where
    Box<[W]>: BitFieldSlice<W>,
    u64: CastableInto<W>,
{
    const BFV: bool = false;
    fn unaligned_ok(&self) -> bool {
        false
    }
    fn gbsu<T: ?Sized + ToSig<S>, S: Sig, E: ShardEdge<S, 3>>(
        _f: &VFunc<T, W, Self, S, E>,
        _sig: S,
    ) -> W {
        panic!("no unaligned reads on slices")
    }
    fn cbsu<T: ?Sized + ToSig<S>, S: Sig, E: ShardEdge<S, 3>>(
        _f: &VFilter<W, VFunc<T, W, Self, S, E>>,
        _sig: S,
    ) -> bool {
        panic!("no unaligned reads on slices")
    }
    fn gu<T: ?Sized + ToSig<S>, S: Sig, E: ShardEdge<S, 3>>(_f: &VFunc<T, W, Self, S, E>, _key: &T) -> W {
        panic!("no unaligned reads on slices")
    }
    fn fgbsu<T: ?Sized + ToSig<S>, S: Sig, E: ShardEdge<S, 3>>(
        _f: &VFilter<W, VFunc<T, W, Self, S, E>>,
        _sig: S,
    ) -> W {
        panic!("no unaligned reads on slices")
    }
    fn fgu<T: ?Sized + ToSig<S>, S: Sig, E: ShardEdge<S, 3>>(
        _f: &VFilter<W, VFunc<T, W, Self, S, E>>,
        _key: &T,
    ) -> W {
        panic!("no unaligned reads on slices")
    }
    fn cu<T: ?Sized + ToSig<S>, S: Sig, E: ShardEdge<S, 3>>(
        _f: &VFilter<W, VFunc<T, W, Self, S, E>>,
        _key: &T,
    ) -> bool {
        panic!("no unaligned reads on slices")
    }
}
impl<W: WordT> Backend<W> for BitFieldVec<W>
where
    u64: CastableInto<W>,
{
    const BFV: bool = true;
    fn unaligned_ok(&self) -> bool {
        let bw = self.bit_width();
        let wb = W::WBITS;
        bw <= wb - 8 + 2 || bw == wb - 8 + 4 || bw == wb
    }
    fn gbsu<T: ?Sized + ToSig<S>, S: Sig, E: ShardEdge<S, 3>>(
        f: &VFunc<T, W, Self, S, E>,
        sig: S,
    ) -> W {
        f.get_by_sig_unaligned(sig)
    }
    fn cbsu<T: ?Sized + ToSig<S>, S: Sig, E: ShardEdge<S, 3>>(
        f: &VFilter<W, VFunc<T, W, Self, S, E>>,
        sig: S,
    ) -> bool {
        f.contains_by_sig_unaligned(sig)
    }
    fn gu<T: ?Sized + ToSig<S>, S: Sig, E: ShardEdge<S, 3>>(f: &VFunc<T, W, Self, S, E>, key: &T) -> W {
        f.get_unaligned(key)
    }
    fn fgbsu<T: ?Sized + ToSig<S>, S: Sig, E: ShardEdge<S, 3>>(
        f: &VFilter<W, VFunc<T, W, Self, S, E>>,
        sig: S,
    ) -> W {
        f.get_by_sig_unaligned(sig)
    }
    fn fgu<T: ?Sized + ToSig<S>, S: Sig, E: ShardEdge<S, 3>>(
        f: &VFilter<W, VFunc<T, W, Self, S, E>>,
        key: &T,
    ) -> W {
        f.get_unaligned(key)
    }
    fn cu<T: ?Sized + ToSig<S>, S: Sig, E: ShardEdge<S, 3>>(
        f: &VFilter<W, VFunc<T, W, Self, S, E>>,
        key: &T,
    ) -> bool {
        f.contains_unaligned(key)
    }
}

// ---------------------------------------------------------------------------------------------
// instrumented lender

#[derive(Clone, Copy, Debug, PartialEq, Eq)]
pub enum LFault {
    None,
    /// `next()` returns `Err` at index `idx` (0-based) of pass `pass` (1-based)
    At { pass: usize, idx: usize },
    /// the `nth` (1-based) call of `rewind()` fails
    Rewind { nth: usize },
}

/// The kind of an injected error varies with the fault position: whatever the kind, the property
/// (C17) wants it back from the build.  (`FaultyCursor` keeps `Other`: `BufRead::read_line` itself
/// retries `Interrupted` forever on a source that keeps reporting it.)
fn fault_kind(i: usize) -> io::ErrorKind {
    use io::ErrorKind::*;
    [Other, Interrupted, UnexpectedEof, InvalidData, WouldBlock, TimedOut, Interrupted, BrokenPipe][i % 8]
}

/// `next()` calls made on an instrumented lender *after* it had returned `None` and before it was
/// rewound, in the current build (C20: every attempt after the first reads a rewound lender)
pub static LATE_READS: AtomicUsize = AtomicUsize::new(0);

pub struct VecLender<K, T: ?Sized> {
    items: Arc<Vec<K>>,
    limit: usize,
    pos: usize,
    ended: bool,
    pass: usize,
    fault: LFault,
    passes: Arc<AtomicUsize>,
    _t: PhantomData<fn(&T)>,
}
impl<K, T: ?Sized> VecLender<K, T> {
    fn new(items: Arc<Vec<K>>, limit: usize, fault: LFault, passes: Arc<AtomicUsize>) -> Self {
        passes.store(1, Ordering::SeqCst);
        VecLender {
            items,
            limit,
            pos: 0,
            ended: false,
            pass: 1,
            fault,
            passes,
            _t: PhantomData,
        }
    }
}
impl<'lend, K, T: ?Sized + 'lend> Lending<'lend> for VecLender<K, T> {
    type Lend = Result<&'lend T, io::Error>;
}
impl<K: Borrow<T>, T: ?Sized + 'static> Lender for VecLender<K, T> {
    fn next(&mut self) -> Option<Lend<'_, Self>> {
        if self.ended {
            LATE_READS.fetch_add(1, Ordering::SeqCst);
        }
        if let LFault::At { pass, idx } = self.fault {
            if pass == self.pass && idx == self.pos {
                self.pos += 1;
                return Some(Err(io::Error::new(fault_kind(pass + idx), "injected")));
            }
        }
        if self.pos >= self.limit {
            self.ended = true;
            None
        } else {
            let r = self.items[self.pos].borrow();
            self.pos += 1;
            Some(Ok(r))
        }
    }
}
impl<K: Borrow<T>, T: ?Sized + 'static> RewindableIoLender<T> for VecLender<K, T> {
    type Error = io::Error;
    fn rewind(mut self) -> Result<Self, io::Error> {
        if let LFault::Rewind { nth } = self.fault {
            if nth == self.pass {
                return Err(io::Error::new(fault_kind(nth + 3), "injected rewind"));
            }
        }
        self.pass += 1;
        self.pos = 0;
        self.ended = false;
        self.passes.store(self.pass, Ordering::SeqCst);
        Ok(self)
    }
}

/// An in-memory `BufRead + Seek` source for the crate's own `LineLender` with the same fault
/// injection as `VecLender`: an I/O error exactly when the reader stands at the first byte of line
/// `idx` in pass `pass` (i.e. before any byte of that line has been read), or at the `nth` rewind
/// (`seek` to the start).
pub struct FaultyCursor {
    data: Vec<u8>,
    pos: usize,
    pass: usize,
    /// (pass, byte offset)
    at: Option<(usize, usize)>,
    rewind: Option<usize>,
    passes: Arc<AtomicUsize>,
}
impl FaultyCursor {
    fn new(keys: &[String], fault: LFault, passes: Arc<AtomicUsize>) -> Self {
        passes.store(1, Ordering::SeqCst);
        let data = join_lines(keys);
        let (at, rewind) = match fault {
            LFault::None => (None, None),
            LFault::At { pass, idx } => {
                if idx > keys.len() {
                    // never reached (as in `VecLender`); idx == len is the end of the data
                    (None, None)
                } else {
                    let off: usize = keys.iter().take(idx).map(|k| k.len() + 1).sum();
                    (Some((pass, off)), None)
                }
            }
            LFault::Rewind { nth } => (None, Some(nth)),
        };
        FaultyCursor { data, pos: 0, pass: 1, at, rewind, passes }
    }
}
impl io::Read for FaultyCursor {
    fn read(&mut self, buf: &mut [u8]) -> io::Result<usize> {
        let n = {
            let avail = io::BufRead::fill_buf(self)?;
            let n = Ord::min(avail.len(), buf.len());
            buf[..n].copy_from_slice(&avail[..n]);
            n
        };
        io::BufRead::consume(self, n);
        Ok(n)
    }
}
impl io::BufRead for FaultyCursor {
    fn fill_buf(&mut self) -> io::Result<&[u8]> {
        let mut end = self.data.len();
        if let Some((p, off)) = self.at {
            if p == self.pass {
                if self.pos == off {
                    return Err(io::Error::new(io::ErrorKind::Other, "injected"));
                }
                if off > self.pos {
                    end = off; // stop exactly at the faulty offset
                }
            }
        }
        Ok(&self.data[self.pos..end])
    }
    fn consume(&mut self, amt: usize) {
        self.pos += amt;
    }
}
impl io::Seek for FaultyCursor {
    fn seek(&mut self, to: io::SeekFrom) -> io::Result<u64> {
        match to {
            io::SeekFrom::Start(0) => {
                if self.rewind == Some(self.pass) {
                    return Err(io::Error::new(io::ErrorKind::Other, "injected rewind"));
                }
                self.pass += 1;
                self.pos = 0;
                self.passes.store(self.pass, Ordering::SeqCst);
                Ok(0)
            }
            _ => Err(io::Error::new(io::ErrorKind::Unsupported, "only rewinds")),
        }
    }
}

// ---------------------------------------------------------------------------------------------
// build specification = the tokens of a `build` line

#[derive(Clone, Debug, PartialEq)]
pub enum Ks {
    Seq(u64),
    Rnd(u64),
    Perm(u64),
}
#[derive(Clone, Debug, PartialEq)]
pub enum Vs {
    Id,
    Zero,
    Ones,
    Rnd(u64),
    RndB(u32, u64),
}
#[derive(Clone, Debug, PartialEq)]
pub enum Fault {
    None,
    K(usize, usize),
    V(usize, usize),
    Rk(usize),
    Rv(usize),
}

#[derive(Clone, Debug)]
pub struct Spec {
    pub take: bool,
    pub filter: bool,
    pub kt: String,
    pub w: String,
    pub be: String,
    pub sw: u32,
    pub lg: String,
    pub lk: String,
    pub n: usize,
    pub ks: Ks,
    pub vs: Vs,
    pub fb: Option<usize>,
    pub off: bool,
    pub lm: Option<bool>,
    pub th: usize,
    pub eps: Option<String>,
    pub lb: Option<u32>,
    pub seed: u64,
    pub hint: Option<usize>,
    pub dups: bool,
    pub dd: Vec<(usize, usize)>,
    pub short: bool,
    pub fault: Fault,
    pub att: Option<usize>,
}

fn opt<T: std::fmt::Display>(x: &Option<T>) -> String {
    match x {
        Some(v) => v.to_string(),
        None => "-".into(),
    }
}

impl Spec {
    pub fn line(&self) -> String {
        let ks = match &self.ks {
            Ks::Seq(s) => format!("seq:{}", s),
            Ks::Rnd(s) => format!("rnd:{}", s),
            Ks::Perm(s) => format!("perm:{}", s),
        };
        let vs = match &self.vs {
            Vs::Id => "id".to_string(),
            Vs::Zero => "zero".into(),
            Vs::Ones => "ones".into(),
            Vs::Rnd(s) => format!("rnd:{}", s),
            Vs::RndB(b, s) => format!("rndb:{}:{}", b, s),
        };
        let dd = if self.dd.is_empty() {
            "-".to_string()
        } else {
            self.dd
                .iter()
                .map(|(a, b)| format!("{}>{}", a, b))
                .collect::<Vec<_>>()
                .join(",")
        };
        let fault = match &self.fault {
            Fault::None => "none".to_string(),
            Fault::K(p, i) => format!("k:{}:{}", p, i),
            Fault::V(p, i) => format!("v:{}:{}", p, i),
            Fault::Rk(p) => format!("rk:{}", p),
            Fault::Rv(p) => format!("rv:{}", p),
        };
        format!(
            "{} {} kt={} w={} be={} sw={} lg={} lk={} n={} ks={} vs={} fb={} off={} lm={} th={} eps={} lb={} seed={} hint={} dups={} dd={} short={} fault={} att={}",
            if self.take { "build_take" } else { "build" },
            if self.filter { "filter" } else { "func" },
            self.kt, self.w, self.be, self.sw, self.lg, self.lk, self.n, ks, vs,
            opt(&self.fb), b01(self.off), match self.lm { None => "-", Some(true) => "1", Some(false) => "0" },
            self.th, opt(&self.eps), opt(&self.lb), self.seed, opt(&self.hint), b01(self.dups), dd,
            b01(self.short), fault, opt(&self.att)
        )
    }

    pub fn parse(t: &[&str]) -> Option<Spec> {
        if t.len() < 3 {
            return None;
        }
        let take = match t[0] {
            "build" => false,
            "build_take" => true,
            _ => return None,
        };
        let filter = match t[1] {
            "func" => false,
            "filter" => true,
            _ => return None,
        };
        let mut m: HashMap<&str, &str> = HashMap::new();
        for x in &t[2..] {
            let (k, v) = x.split_once('=')?;
            m.insert(k, v);
        }
        let g = |k: &str| m.get(k).copied();
        let on = |s: &str| -> Option<Option<usize>> {
            if s == "-" {
                Some(None)
            } else {
                s.parse().ok().map(Some)
            }
        };
        let ks = {
            let (a, b) = g("ks")?.split_once(':')?;
            let v: u64 = b.parse().ok()?;
            match a {
                "seq" => Ks::Seq(v),
                "rnd" => Ks::Rnd(v),
                "perm" => Ks::Perm(v),
                _ => return None,
            }
        };
        let vs = {
            let s = g("vs")?;
            let p: Vec<&str> = s.split(':').collect();
            match p.as_slice() {
                ["id"] => Vs::Id,
                ["zero"] => Vs::Zero,
                ["ones"] => Vs::Ones,
                ["rnd", s] => Vs::Rnd(s.parse().ok()?),
                ["rndb", b, s] => Vs::RndB(b.parse().ok()?, s.parse().ok()?),
                _ => return None,
            }
        };
        let dd = {
            let s = g("dd")?;
            if s == "-" {
                vec![]
            } else {
                let mut v = vec![];
                for x in s.split(',') {
                    let (a, b) = x.split_once('>')?;
                    v.push((a.parse().ok()?, b.parse().ok()?));
                }
                v
            }
        };
        let fault = {
            let s = g("fault")?;
            let p: Vec<&str> = s.split(':').collect();
            match p.as_slice() {
                ["none"] => Fault::None,
                ["k", a, b] => Fault::K(a.parse().ok()?, b.parse().ok()?),
                ["v", a, b] => Fault::V(a.parse().ok()?, b.parse().ok()?),
                ["rk", a] => Fault::Rk(a.parse().ok()?),
                ["rv", a] => Fault::Rv(a.parse().ok()?),
                _ => return None,
            }
        };
        Some(Spec {
            take,
            filter,
            kt: g("kt")?.to_string(),
            w: g("w")?.to_string(),
            be: g("be")?.to_string(),
            sw: g("sw")?.parse().ok()?,
            lg: g("lg")?.to_string(),
            lk: g("lk")?.to_string(),
            n: g("n")?.parse().ok()?,
            ks,
            vs,
            fb: on(g("fb")?)?,
            off: g("off")? == "1",
            lm: match g("lm")? {
                "-" => None,
                "1" => Some(true),
                "0" => Some(false),
                _ => return None,
            },
            th: g("th")?.parse().ok()?,
            eps: match g("eps")? {
                "-" => None,
                s => {
                    let _: f64 = s.parse().ok()?;
                    Some(s.to_string())
                }
            },
            lb: on(g("lb")?)?.map(|x| x as u32),
            seed: g("seed")?.parse().ok()?,
            hint: on(g("hint")?)?,
            dups: g("dups")? == "1",
            dd,
            short: g("short")? == "1",
            fault,
            att: on(g("att")?)?,
        })
    }

    fn wbits(&self) -> usize {
        match self.w.as_str() {
            "8" => 8,
            "16" => 16,
            "32" => 32,
            _ => 64,
        }
    }

    /// distinct member ids (before the `dd` duplications) — `n` of them
    fn member_ids(&self) -> Vec<u64> {
        match self.ks {
            Ks::Seq(s) => (0..self.n as u64).map(|i| s.wrapping_add(i)).collect(),
            Ks::Rnd(seed) => {
                let mut st = seed;
                let mut seen = HashSet::with_capacity(self.n * 2);
                let mut v = Vec::with_capacity(self.n);
                while v.len() < self.n {
                    let x = sm64(&mut st);
                    if seen.insert(x) {
                        v.push(x);
                    }
                }
                v
            }
            Ks::Perm(seed) => perm256(seed).into_iter().take(self.n).collect(),
        }
    }

    /// the j-th non-member id
    fn probe_ids(&self, members: &HashSet<u64>, from: u64, count: u64) -> Vec<u64> {
        match self.ks {
            Ks::Seq(s) => (from..from + count)
                .map(|j| s.wrapping_add(self.n as u64).wrapping_add(j))
                .filter(|x| !members.contains(x))
                .collect(),
            Ks::Rnd(seed) => {
                let mut st = seed ^ 0xA5A5_5A5A_DEAD_BEEF;
                st = st.wrapping_add(from.wrapping_mul(0x9E3779B97F4A7C15));
                let mut v = Vec::with_capacity(count as usize);
                while (v.len() as u64) < count {
                    let x = sm64(&mut st);
                    if !members.contains(&x) {
                        v.push(x);
                    }
                }
                v
            }
            Ks::Perm(seed) => perm256(seed)
                .into_iter()
                .skip(self.n + from as usize)
                .take(count as usize)
                .collect(),
        }
    }

    /// stored values (as u64, already truncated to the word width)
    fn values(&self) -> Vec<u64> {
        let wb = self.wbits();
        let m = if wb == 64 { u64::MAX } else { (1u64 << wb) - 1 };
        match self.vs {
            Vs::Id => (0..self.n as u64).map(|i| i & m).collect(),
            Vs::Zero => vec![0; self.n],
            Vs::Ones => vec![m; self.n],
            Vs::Rnd(seed) => {
                let mut st = seed;
                (0..self.n).map(|_| sm64(&mut st) & m).collect()
            }
            Vs::RndB(b, seed) => {
                let b = Ord::max(Ord::min(b as usize, wb), 1);
                let mb = if b == 64 { u64::MAX } else { (1u64 << b) - 1 };
                let mut st = seed;
                (0..self.n).map(|_| sm64(&mut st) & mb).collect()
            }
        }
    }
}

fn perm256(seed: u64) -> Vec<u64> {
    let mut v: Vec<u64> = (0..256).collect();
    let mut st = seed;
    for i in (1..256usize).rev() {
        let j = (sm64(&mut st) % (i as u64 + 1)) as usize;
        v.swap(i, j);
    }
    v
}

// ---------------------------------------------------------------------------------------------
// type-erased built instance

#[derive(Clone, Copy)]
pub enum KQ {
    Member(usize),
    Probe(u64),
}

pub struct Parts {
    pub dbg: String,
    pub seed: u64,
    pub n: usize,
    pub bw: usize,
    pub cells: Vec<u64>,
}

pub trait Inst: Send {
    fn is_filter(&self) -> bool;
    fn is_bfv(&self) -> bool;
    fn unaligned_ok(&self) -> bool;
    fn len(&self) -> usize;
    fn is_empty(&self) -> bool;
    fn parts(&self) -> Parts;
    fn sig(&self, q: KQ) -> (u64, u64);
    fn get(&self, q: KQ) -> u64;
    fn getu(&self, q: KQ) -> u64;
    fn contains(&self, q: KQ) -> bool;
    fn containsu(&self, q: KQ) -> bool;
    fn index(&self, q: KQ) -> bool;
    fn get_by_sig(&self, s0: u64, s1: u64) -> u64;
    fn getu_by_sig(&self, s0: u64, s1: u64) -> u64;
    fn contains_by_sig(&self, s0: u64, s1: u64) -> bool;
    fn containsu_by_sig(&self, s0: u64, s1: u64) -> bool;
    fn hash_bits(&self) -> u32;
    fn mask(&self) -> u64;
    /// the real `local_edge(local_sig(sig))` and `(num_vertices, num_shards)`
    fn local_edge(&self, s0: u64, s1: u64) -> [usize; 3];
    fn dims(&self) -> (usize, usize);
}

pub struct KeySet<KK: KeyKind> {
    keys: Arc<Vec<KK::K>>,
}
impl<KK: KeyKind> KeySet<KK> {
    fn with<R>(&self, q: KQ, f: impl FnOnce(&KK::T) -> R) -> R {
        match q {
            KQ::Member(i) => f(self.keys[i].borrow()),
            KQ::Probe(id) => {
                let k = KK::from_id(id);
                f(k.borrow())
            }
        }
    }
}

pub struct FuncInst<KK: KeyKind, W: WordT, D: Backend<W>, S: SigT, E: ShardEdge<S, 3>>
where
    KK::T: ToSig<S>,
{
    f: VFunc<KK::T, W, D, S, E>,
    ks: KeySet<KK>,
}

pub struct FilterInst<KK: KeyKind, W: WordT, D: Backend<W>, S: SigT, E: ShardEdge<S, 3>>
where
    KK::T: ToSig<S>,
{
    f: VFilter<W, VFunc<KK::T, W, D, S, E>>,
    ks: KeySet<KK>,
}

fn parts_of<T: ?Sized + ToSig<S>, W: WordT, D: Backend<W>, S: SigT, E: ShardEdge<S, 3> + std::fmt::Debug>(
    f: &VFunc<T, W, D, S, E>,
) -> Parts {
    let (se, seed, n, data) = f.verif_parts();
    Parts {
        dbg: format!("{:?}", se),
        seed,
        n,
        bw: data.bit_width(),
        cells: (0..data.len()).map(|i| data.get(i).to64()).collect(),
    }
}

impl<KK: KeyKind, W: WordT, D: Backend<W>, S: SigT, E: ShardEdge<S, 3> + std::fmt::Debug + 'static> Inst
    for FuncInst<KK, W, D, S, E>
where
    KK::T: ToSig<S>,
{
    fn is_filter(&self) -> bool {
        false
    }
    fn is_bfv(&self) -> bool {
        D::BFV
    }
    fn unaligned_ok(&self) -> bool {
        self.f.verif_parts().3.unaligned_ok()
    }
    fn len(&self) -> usize {
        self.f.len()
    }
    fn is_empty(&self) -> bool {
        self.f.is_empty()
    }
    fn parts(&self) -> Parts {
        parts_of(&self.f)
    }
    fn sig(&self, q: KQ) -> (u64, u64) {
        let seed = self.f.verif_parts().1;
        self.ks
            .with(q, |k| <KK::T as ToSig<S>>::to_sig(k, seed).to2())
    }
    fn get(&self, q: KQ) -> u64 {
        self.ks.with(q, |k| self.f.get(k).to64())
    }
    fn getu(&self, q: KQ) -> u64 {
        // the key-based public method (`get_unaligned`), not the by-signature one
        self.ks.with(q, |k| D::gu(&self.f, k).to64())
    }
    fn contains(&self, _q: KQ) -> bool {
        unreachable!()
    }
    fn containsu(&self, _q: KQ) -> bool {
        unreachable!()
    }
    fn index(&self, _q: KQ) -> bool {
        unreachable!()
    }
    fn get_by_sig(&self, s0: u64, s1: u64) -> u64 {
        self.f.get_by_sig(S::from2(s0, s1)).to64()
    }
    fn getu_by_sig(&self, s0: u64, s1: u64) -> u64 {
        D::gbsu(&self.f, S::from2(s0, s1)).to64()
    }
    fn contains_by_sig(&self, _s0: u64, _s1: u64) -> bool {
        unreachable!()
    }
    fn containsu_by_sig(&self, _s0: u64, _s1: u64) -> bool {
        unreachable!()
    }
    fn hash_bits(&self) -> u32 {
        unreachable!()
    }
    fn mask(&self) -> u64 {
        unreachable!()
    }
    fn local_edge(&self, s0: u64, s1: u64) -> [usize; 3] {
        let se = self.f.verif_parts().0;
        se.local_edge(se.local_sig(S::from2(s0, s1)))
    }
    fn dims(&self) -> (usize, usize) {
        let se = self.f.verif_parts().0;
        (se.num_vertices(), se.num_shards())
    }
}

impl<KK: KeyKind, W: WordT, D: Backend<W>, S: SigT, E: ShardEdge<S, 3> + std::fmt::Debug + 'static> Inst
    for FilterInst<KK, W, D, S, E>
where
    KK::T: ToSig<S>,
    u64: CastableInto<W>,
{
    fn is_filter(&self) -> bool {
        true
    }
    fn is_bfv(&self) -> bool {
        D::BFV
    }
    fn unaligned_ok(&self) -> bool {
        self.f.verif_parts().0.verif_parts().3.unaligned_ok()
    }
    fn len(&self) -> usize {
        self.f.len()
    }
    fn is_empty(&self) -> bool {
        self.f.is_empty()
    }
    fn parts(&self) -> Parts {
        parts_of(self.f.verif_parts().0)
    }
    fn sig(&self, q: KQ) -> (u64, u64) {
        let seed = self.f.verif_parts().0.verif_parts().1;
        self.ks
            .with(q, |k| <KK::T as ToSig<S>>::to_sig(k, seed).to2())
    }
    fn get(&self, q: KQ) -> u64 {
        self.ks.with(q, |k| self.f.get(k).to64())
    }
    fn getu(&self, q: KQ) -> u64 {
        // `VFilter::get_unaligned(key)`
        self.ks.with(q, |k| D::fgu(&self.f, k).to64())
    }
    fn contains(&self, q: KQ) -> bool {
        self.ks.with(q, |k| self.f.contains(k))
    }
    fn containsu(&self, q: KQ) -> bool {
        // `VFilter::contains_unaligned(key)`
        self.ks.with(q, |k| D::cu(&self.f, k))
    }
    fn index(&self, q: KQ) -> bool {
        self.ks.with(q, |k| self.f[k])
    }
    fn get_by_sig(&self, s0: u64, s1: u64) -> u64 {
        self.f.get_by_sig(S::from2(s0, s1)).to64()
    }
    fn getu_by_sig(&self, s0: u64, s1: u64) -> u64 {
        // `VFilter::get_by_sig_unaligned`, cross-checked against the inner function's method
        let a = D::fgbsu(&self.f, S::from2(s0, s1)).to64();
        let b = D::gbsu(self.f.verif_parts().0, S::from2(s0, s1)).to64();
        assert_eq!(a, b, "VFilter::get_by_sig_unaligned differs from VFunc::get_by_sig_unaligned");
        a
    }
    fn contains_by_sig(&self, s0: u64, s1: u64) -> bool {
        self.f.contains_by_sig(S::from2(s0, s1))
    }
    fn containsu_by_sig(&self, s0: u64, s1: u64) -> bool {
        D::cbsu(&self.f, S::from2(s0, s1))
    }
    fn hash_bits(&self) -> u32 {
        self.f.hash_bits()
    }
    fn mask(&self) -> u64 {
        self.f.verif_parts().1.to64()
    }
    fn local_edge(&self, s0: u64, s1: u64) -> [usize; 3] {
        let se = self.f.verif_parts().0.verif_parts().0;
        se.local_edge(se.local_sig(S::from2(s0, s1)))
    }
    fn dims(&self) -> (usize, usize) {
        let se = self.f.verif_parts().0.verif_parts().0;
        (se.num_vertices(), se.num_shards())
    }
}

// ---------------------------------------------------------------------------------------------
// building (real code), dispatched over a curated list of type combinations

pub struct BuildOut {
    pub res: Result<Box<dyn Inst>, String>,
    /// passes over the key lender (= attempts) when the instrumented lender is used, else 0
    pub passes: usize,
}

fn classify(e: &anyhow::Error) -> String {
    if let Some(b) = e.downcast_ref::<BuildError>() {
        return match b {
            BuildError::DuplicateKey => "err DuplicateKey".into(),
            BuildError::DuplicateLocalSignatures => "err DuplicateLocalSignatures".into(),
            BuildError::ValueTooLarge => "err ValueTooLarge".into(),
        };
    }
    if e.downcast_ref::<io::Error>().is_some() {
        return "err io".into();
    }
    "err other".into()
}

fn make_keys<KK: KeyKind>(spec: &Spec) -> Arc<Vec<KK::K>> {
    let mut keys: Vec<KK::K> = spec.member_ids().into_iter().map(KK::from_id).collect();
    for &(dst, src) in &spec.dd {
        if dst < keys.len() && src < keys.len() {
            keys[dst] = keys[src].clone();
        }
    }
    Arc::new(keys)
}

fn lender_faults(spec: &Spec) -> (LFault, LFault) {
    match spec.fault {
        Fault::None => (LFault::None, LFault::None),
        Fault::K(p, i) => (LFault::At { pass: p, idx: i }, LFault::None),
        Fault::V(p, i) => (LFault::None, LFault::At { pass: p, idx: i }),
        Fault::Rk(p) => (LFault::Rewind { nth: p }, LFault::None),
        Fault::Rv(p) => (LFault::None, LFault::Rewind { nth: p }),
    }
}

fn join_lines(keys: &[String]) -> Vec<u8> {
    let mut v = Vec::new();
    for k in keys {
        v.extend_from_slice(k.as_bytes());
        v.push(b'\n');
    }
    v
}

macro_rules! mk_builder {
    ($spec:expr, $W:ty, $D:ty, $S:ty, $E:ty) => {{
        let mut b = VBuilder::<$W, $D, $S, $E>::default()
            .offline($spec.off)
            .max_num_threads($spec.th)
            .seed($spec.seed)
            .check_dups($spec.dups);
        if let Some(l) = $spec.lm {
            b = b.low_mem(l);
        }
        if let Some(e) = &$spec.eps {
            b = b.eps(e.parse::<f64>().unwrap());
        }
        if let Some(l) = $spec.lb {
            b = b.log2_buckets(l);
        }
        if let Some(h) = $spec.hint {
            b = b.expected_num_keys(h);
        }
        b
    }};
}

macro_rules! key_lender {
    (vec, $KK:ty, $spec:expr, $keys:expr, $kf:expr, $kp:expr) => {
        VecLender::<<$KK as KeyKind>::K, <$KK as KeyKind>::T>::new(
            $keys.clone(),
            $keys.len(),
            $kf,
            $kp.clone(),
        )
    };
    (fii, $KK:ty, $spec:expr, $keys:expr, $kf:expr, $kp:expr) => {
        FromIntoIterator::from((*$keys).clone())
    };
    (line, $KK:ty, $spec:expr, $keys:expr, $kf:expr, $kp:expr) => {
        LineLender::new(FaultyCursor::new(&$keys, $kf, $kp.clone()))
    };
    (take, $KK:ty, $spec:expr, $keys:expr, $kf:expr, $kp:expr) => {
        FromIntoIterator::from(0..2 * $spec.n).take($spec.n)
    };
}

macro_rules! func {
    ($spec:expr, $lk:ident, $KK:ty, $W:ty, $D:ty, $S:ty, $E:ty) => {{
        let keys = make_keys::<$KK>($spec);
        let n = keys.len();
        let vals: Arc<Vec<$W>> = Arc::new(
            $spec
                .values()
                .into_iter()
                .map(<$W as WordT>::from64)
                .collect(),
        );
        let kp = Arc::new(AtomicUsize::new(0));
        let vp = Arc::new(AtomicUsize::new(0));
        let (kf, vf) = lender_faults($spec);
        let _ = &kf;
        let vl = VecLender::<$W, $W>::new(
            vals,
            if $spec.short { n.saturating_sub(1) } else { n },
            vf,
            vp,
        );
        let kl = key_lender!($lk, $KK, $spec, keys, kf, kp);
        let b = mk_builder!($spec, $W, $D, $S, $E);
        let r: anyhow::Result<VFunc<<$KK as KeyKind>::T, $W, $D, $S, $E>> =
            b.try_build_func(kl, vl, no_logging![]);
        BuildOut {
            res: match r {
                Ok(f) => Ok(Box::new(FuncInst::<$KK, $W, $D, $S, $E> {
                    f,
                    ks: KeySet { keys },
                }) as Box<dyn Inst>),
                Err(e) => Err(classify(&e)),
            },
            passes: kp.load(Ordering::SeqCst),
        }
    }};
}

macro_rules! fbox {
    ($spec:expr, $lk:ident, $KK:ty, $W:ty, $D:ty, $S:ty, $E:ty) => {{
        let keys = make_keys::<$KK>($spec);
        let kp = Arc::new(AtomicUsize::new(0));
        let (kf, _vf) = lender_faults($spec);
        let _ = &kf;
        let kl = key_lender!($lk, $KK, $spec, keys, kf, kp);
        let b = mk_builder!($spec, $W, $D, $S, $E);
        let r: anyhow::Result<VFilter<$W, VFunc<<$KK as KeyKind>::T, $W, $D, $S, $E>>> =
            b.try_build_filter(kl, no_logging![]);
        BuildOut {
            res: match r {
                Ok(f) => Ok(Box::new(FilterInst::<$KK, $W, $D, $S, $E> {
                    f,
                    ks: KeySet { keys },
                }) as Box<dyn Inst>),
                Err(e) => Err(classify(&e)),
            },
            passes: kp.load(Ordering::SeqCst),
        }
    }};
}

macro_rules! fbfv {
    ($spec:expr, $lk:ident, $KK:ty, $W:ty, $D:ty, $S:ty, $E:ty) => {{
        let keys = make_keys::<$KK>($spec);
        let kp = Arc::new(AtomicUsize::new(0));
        let (kf, _vf) = lender_faults($spec);
        let _ = &kf;
        let kl = key_lender!($lk, $KK, $spec, keys, kf, kp);
        let b = mk_builder!($spec, $W, $D, $S, $E);
        let r: anyhow::Result<VFilter<$W, VFunc<<$KK as KeyKind>::T, $W, $D, $S, $E>>> =
            b.try_build_filter(kl, $spec.fb.unwrap_or(<$W as WordT>::WBITS), no_logging![]);
        BuildOut {
            res: match r {
                Ok(f) => Ok(Box::new(FilterInst::<$KK, $W, $D, $S, $E> {
                    f,
                    ks: KeySet { keys },
                }) as Box<dyn Inst>),
                Err(e) => Err(classify(&e)),
            },
            passes: kp.load(Ordering::SeqCst),
        }
    }};
}

type S1 = [u64; 1];
type S2 = [u64; 2];
type BX<W> = Box<[W]>;
type BF<W> = BitFieldVec<W>;

/// (macro, kind, lk, kt, KK, w, W, be, D, sw, S, lg, E)
macro_rules! combos {
    ($( ($mac:ident, $kind:literal, $lk:ident, $ktn:literal, $KK:ty, $wn:literal, $W:ty, $ben:literal, $D:ty, $swn:literal, $S:ty, $lgn:literal, $E:ty) ),* $(,)?) => {
        /// (kind, lk, kt, w, be, sw, lg)
        pub const COMBOS: &[(&str, &str, &str, &str, &str, u32, &str)] = &[
            $( ($kind, stringify!($lk), $ktn, $wn, $ben, $swn, $lgn) ),*
        ];
        fn dispatch(spec: &Spec) -> BuildOut {
            if spec.lg == "mwhc" {
                return dispatch_mwhc(spec);
            }
            let kind = if spec.filter { "filter" } else { "func" };
            let lk = if spec.take { "take" } else { spec.lk.as_str() };
            $(
                if kind == $kind && lk == stringify!($lk) && spec.kt == $ktn && spec.w == $wn
                    && spec.be == $ben && spec.sw == $swn && spec.lg == $lgn {
                    return $mac!(spec, $lk, $KK, $W, $D, $S, $E);
                }
            )*
            BuildOut { res: Err("err unsupported".into()), passes: 0 }
        }
    };
}

combos! {
    // functions, key type usize, all words and both backends, default logic
    (func, "func", vec, "usize", KUsize, "8", u8, "box", BX<u8>, 2, S2, "shards", FuseLge3Shards),
    (func, "func", vec, "usize", KUsize, "16", u16, "box", BX<u16>, 2, S2, "shards", FuseLge3Shards),
    (func, "func", vec, "usize", KUsize, "32", u32, "box", BX<u32>, 2, S2, "shards", FuseLge3Shards),
    (func, "func", vec, "usize", KUsize, "64", u64, "box", BX<u64>, 2, S2, "shards", FuseLge3Shards),
    (func, "func", vec, "usize", KUsize, "size", usize, "box", BX<usize>, 2, S2, "shards", FuseLge3Shards),
    (func, "func", vec, "usize", KUsize, "8", u8, "bfv", BF<u8>, 2, S2, "shards", FuseLge3Shards),
    (func, "func", vec, "usize", KUsize, "16", u16, "bfv", BF<u16>, 2, S2, "shards", FuseLge3Shards),
    (func, "func", vec, "usize", KUsize, "32", u32, "bfv", BF<u32>, 2, S2, "shards", FuseLge3Shards),
    (func, "func", vec, "usize", KUsize, "64", u64, "bfv", BF<u64>, 2, S2, "shards", FuseLge3Shards),
    (func, "func", vec, "usize", KUsize, "size", usize, "bfv", BF<usize>, 2, S2, "shards", FuseLge3Shards),
    // other logics / signature widths
    (func, "func", vec, "usize", KUsize, "64", u64, "box", BX<u64>, 2, S2, "noshards", FuseLge3NoShards),
    (func, "func", vec, "usize", KUsize, "64", u64, "box", BX<u64>, 1, S1, "noshards", FuseLge3NoShards),
    (func, "func", vec, "usize", KUsize, "64", u64, "box", BX<u64>, 2, S2, "fullsigs", FuseLge3FullSigs),
    (func, "func", vec, "usize", KUsize, "64", u64, "bfv", BF<u64>, 2, S2, "noshards", FuseLge3NoShards),
    (func, "func", vec, "usize", KUsize, "64", u64, "bfv", BF<u64>, 1, S1, "noshards", FuseLge3NoShards),
    (func, "func", vec, "usize", KUsize, "64", u64, "bfv", BF<u64>, 2, S2, "fullsigs", FuseLge3FullSigs),
    (func, "func", vec, "usize", KUsize, "8", u8, "box", BX<u8>, 2, S2, "noshards", FuseLge3NoShards),
    (func, "func", vec, "usize", KUsize, "8", u8, "box", BX<u8>, 1, S1, "noshards", FuseLge3NoShards),
    (func, "func", vec, "usize", KUsize, "8", u8, "box", BX<u8>, 2, S2, "fullsigs", FuseLge3FullSigs),
    (func, "func", vec, "usize", KUsize, "size", usize, "bfv", BF<usize>, 2, S2, "noshards", FuseLge3NoShards),
    (func, "func", vec, "usize", KUsize, "size", usize, "bfv", BF<usize>, 1, S1, "noshards", FuseLge3NoShards),
    (func, "func", vec, "usize", KUsize, "size", usize, "bfv", BF<usize>, 2, S2, "fullsigs", FuseLge3FullSigs),
    // other key types
    (func, "func", vec, "u64", KU64, "32", u32, "bfv", BF<u32>, 2, S2, "shards", FuseLge3Shards),
    (func, "func", vec, "u64", KU64, "16", u16, "box", BX<u16>, 1, S1, "noshards", FuseLge3NoShards),
    (func, "func", vec, "u8", KU8, "8", u8, "box", BX<u8>, 2, S2, "shards", FuseLge3Shards),
    (func, "func", vec, "u8", KU8, "size", usize, "bfv", BF<usize>, 1, S1, "noshards", FuseLge3NoShards),
    (func, "func", vec, "u128", KU128, "64", u64, "bfv", BF<u64>, 2, S2, "shards", FuseLge3Shards),
    (func, "func", vec, "u128", KU128, "32", u32, "box", BX<u32>, 2, S2, "fullsigs", FuseLge3FullSigs),
    (func, "func", vec, "string", KString, "size", usize, "bfv", BF<usize>, 2, S2, "shards", FuseLge3Shards),
    (func, "func", vec, "string", KString, "32", u32, "box", BX<u32>, 1, S1, "noshards", FuseLge3NoShards),
    (func, "func", vec, "strref", KStrRef, "size", usize, "bfv", BF<usize>, 2, S2, "shards", FuseLge3Shards),
    (func, "func", vec, "strref", KStrRef, "8", u8, "box", BX<u8>, 2, S2, "noshards", FuseLge3NoShards),
    (func, "func", vec, "sliceu32", KSliceU32, "64", u64, "box", BX<u64>, 2, S2, "shards", FuseLge3Shards),
    (func, "func", vec, "sliceu32", KSliceU32, "size", usize, "bfv", BF<usize>, 1, S1, "noshards", FuseLge3NoShards),
    (func, "func", vec, "str", KStr, "size", usize, "bfv", BF<usize>, 2, S2, "shards", FuseLge3Shards),
    (func, "func", vec, "str", KStr, "64", u64, "box", BX<u64>, 1, S1, "noshards", FuseLge3NoShards),
    // library lenders
    (func, "func", fii, "usize", KUsize, "size", usize, "bfv", BF<usize>, 2, S2, "shards", FuseLge3Shards),
    (func, "func", take, "usize", KUsize, "size", usize, "bfv", BF<usize>, 2, S2, "shards", FuseLge3Shards),
    (func, "func", line, "str", KStr, "size", usize, "bfv", BF<usize>, 2, S2, "shards", FuseLge3Shards),
    (func, "func", fii, "string", KString, "size", usize, "bfv", BF<usize>, 2, S2, "shards", FuseLge3Shards),
    // filters on slices
    (fbox, "filter", vec, "usize", KUsize, "8", u8, "box", BX<u8>, 2, S2, "shards", FuseLge3Shards),
    (fbox, "filter", vec, "usize", KUsize, "16", u16, "box", BX<u16>, 2, S2, "shards", FuseLge3Shards),
    (fbox, "filter", vec, "usize", KUsize, "32", u32, "box", BX<u32>, 2, S2, "shards", FuseLge3Shards),
    (fbox, "filter", vec, "usize", KUsize, "64", u64, "box", BX<u64>, 2, S2, "shards", FuseLge3Shards),
    (fbox, "filter", vec, "usize", KUsize, "size", usize, "box", BX<usize>, 2, S2, "shards", FuseLge3Shards),
    (fbox, "filter", vec, "usize", KUsize, "8", u8, "box", BX<u8>, 2, S2, "noshards", FuseLge3NoShards),
    (fbox, "filter", vec, "usize", KUsize, "8", u8, "box", BX<u8>, 1, S1, "noshards", FuseLge3NoShards),
    (fbox, "filter", vec, "usize", KUsize, "8", u8, "box", BX<u8>, 2, S2, "fullsigs", FuseLge3FullSigs),
    (fbox, "filter", vec, "usize", KUsize, "64", u64, "box", BX<u64>, 1, S1, "noshards", FuseLge3NoShards),
    (fbox, "filter", vec, "string", KString, "8", u8, "box", BX<u8>, 2, S2, "shards", FuseLge3Shards),
    (fbox, "filter", vec, "str", KStr, "16", u16, "box", BX<u16>, 1, S1, "noshards", FuseLge3NoShards),
    (fbox, "filter", vec, "u128", KU128, "32", u32, "box", BX<u32>, 2, S2, "shards", FuseLge3Shards),
    (fbox, "filter", fii, "usize", KUsize, "8", u8, "box", BX<u8>, 2, S2, "shards", FuseLge3Shards),
    (fbox, "filter", line, "str", KStr, "8", u8, "box", BX<u8>, 2, S2, "shards", FuseLge3Shards),
    // filters on bit-field vectors (any number of hash bits)
    (fbfv, "filter", vec, "usize", KUsize, "8", u8, "bfv", BF<u8>, 2, S2, "shards", FuseLge3Shards),
    (fbfv, "filter", vec, "usize", KUsize, "16", u16, "bfv", BF<u16>, 2, S2, "shards", FuseLge3Shards),
    (fbfv, "filter", vec, "usize", KUsize, "32", u32, "bfv", BF<u32>, 2, S2, "shards", FuseLge3Shards),
    (fbfv, "filter", vec, "usize", KUsize, "64", u64, "bfv", BF<u64>, 2, S2, "shards", FuseLge3Shards),
    (fbfv, "filter", vec, "usize", KUsize, "size", usize, "bfv", BF<usize>, 2, S2, "shards", FuseLge3Shards),
    (fbfv, "filter", vec, "usize", KUsize, "64", u64, "bfv", BF<u64>, 2, S2, "noshards", FuseLge3NoShards),
    (fbfv, "filter", vec, "usize", KUsize, "64", u64, "bfv", BF<u64>, 1, S1, "noshards", FuseLge3NoShards),
    (fbfv, "filter", vec, "usize", KUsize, "64", u64, "bfv", BF<u64>, 2, S2, "fullsigs", FuseLge3FullSigs),
    (fbfv, "filter", vec, "string", KString, "size", usize, "bfv", BF<usize>, 2, S2, "shards", FuseLge3Shards),
    (fbfv, "filter", vec, "u8", KU8, "16", u16, "bfv", BF<u16>, 1, S1, "noshards", FuseLge3NoShards),
    (fbfv, "filter", vec, "sliceu32", KSliceU32, "16", u16, "bfv", BF<u16>, 2, S2, "shards", FuseLge3Shards),
}

/// `Mwhc3Shards` (feature `mwhc`): not part of `COMBOS` (the random part must not draw the sizes of
/// known finding D30); reached only through the directed section J with `lg=mwhc`.  Its sharding
/// depends on `eps` at every size and it never uses lazy Gaussian elimination, so that `low_mem`
/// and the thread limit select the peeler already at 120 000 keys (4 shards with eps = 1).
#[cfg(feature = "mwhc")]
fn dispatch_mwhc(spec: &Spec) -> BuildOut {
    use sux::func::shard_edge::Mwhc3Shards;
    let lk = if spec.take { "take" } else { spec.lk.as_str() };
    match (spec.filter, lk, spec.kt.as_str(), spec.w.as_str(), spec.be.as_str(), spec.sw) {
        (false, "vec", "usize", "size", "bfv", 2) => func!(spec, vec, KUsize, usize, BF<usize>, S2, Mwhc3Shards),
        (false, "vec", "usize", "64", "box", 2) => func!(spec, vec, KUsize, u64, BX<u64>, S2, Mwhc3Shards),
        (true, "vec", "usize", "8", "box", 2) => fbox!(spec, vec, KUsize, u8, BX<u8>, S2, Mwhc3Shards),
        (true, "vec", "usize", "64", "bfv", 2) => fbfv!(spec, vec, KUsize, u64, BF<u64>, S2, Mwhc3Shards),
        _ => BuildOut { res: Err("err unsupported".into()), passes: 0 },
    }
}

#[cfg(not(feature = "mwhc"))]
fn dispatch_mwhc(_spec: &Spec) -> BuildOut {
    BuildOut { res: Err("err unsupported".into()), passes: 0 }
}

pub enum Guarded {
    Done(BuildOut),
    Panic,
    Timeout,
}

/// run the build in its own thread under a wall-clock guard
pub fn guarded_build(spec: &Spec) -> Guarded {
    let (tx, rx) = mpsc::channel();
    let sp = spec.clone();
    let h = std::thread::Builder::new()
        .stack_size(16 << 20)
        .spawn(move || {
            let r = catch(|| dispatch(&sp));
            let _ = tx.send(r);
        })
        .unwrap();
    // the wall-clock guard can be widened from outside (the Miri battery interprets the same build
    // 100-1000x slower; with isolation disabled Miri reads the host clock)
    let secs = std::env::var("SUX_VERIF_BUILD_TIMEOUT_SECS")
        .ok()
        .and_then(|s| s.parse::<u64>().ok())
        .unwrap_or(BUILD_TIMEOUT_SECS);
    match rx.recv_timeout(Duration::from_secs(secs)) {
        Ok(Some(out)) => {
            let _ = h.join();
            Guarded::Done(out)
        }
        Ok(None) => {
            let _ = h.join();
            Guarded::Panic
        }
        Err(mpsc::RecvTimeoutError::Timeout) => Guarded::Timeout,
        Err(mpsc::RecvTimeoutError::Disconnected) => Guarded::Panic,
    }
}

// ---------------------------------------------------------------------------------------------
// interpreter: executes one protocol line on the real code (used by `run` and by `replay`)

#[derive(Default)]
pub struct St {
    spec: Option<Spec>,
    inst: Option<Box<dyn Inst>>,
    /// signature -> member index (only for n <= PARTS_MAX_N)
    members: HashMap<(u64, u64), usize>,
    member_ids: HashSet<u64>,
    vals: Vec<u64>,
    /// passes of the key lender in the last build (0 = unknown)
    pub last_passes: usize,
    /// `LATE_READS` of the last build
    pub last_late: usize,
    pub last_reply: String,
}

fn parse_debug_params(dbg: &str) -> (u64, u64, u64) {
    let grab = |name: &str| -> Option<u64> {
        let pat = format!("{}: ", name);
        let i = dbg.find(&pat)? + pat.len();
        let rest = &dbg[i..];
        let end = rest
            .find(|c: char| !c.is_ascii_digit())
            .unwrap_or(rest.len());
        rest[..end].parse().ok()
    };
    // the field `l` must not match `shard_bits_shift`/`log2_seg_size`: search for ", l: " or "{ l: "
    let l = {
        let i = dbg.find(" l: ").map(|i| i + 4).unwrap();
        let rest = &dbg[i..];
        let end = rest
            .find(|c: char| !c.is_ascii_digit())
            .unwrap_or(rest.len());
        rest[..end].parse().unwrap()
    };
    (
        grab("shard_bits_shift").unwrap_or(63),
        grab("log2_seg_size").unwrap(),
        l,
    )
}

fn parts_line(spec: &Spec, p: &Parts) -> String {
    let (shift, s, l) = parse_debug_params(&p.dbg);
    format!(
        "parts {} {} {} {} {} {} {} {} {}",
        spec.lg,
        spec.sw,
        shift,
        s,
        l,
        p.seed,
        p.n,
        p.bw,
        fmt_list(p.cells.iter())
    )
}

impl St {
    /// what the property says `get` returns for member `i` (naive oracle)
    fn expected(&self, i: usize, sig: (u64, u64)) -> u64 {
        let spec = self.spec.as_ref().unwrap();
        if !spec.filter {
            return self.vals[i];
        }
        let word = if spec.sw == 1 { sig.0 } else { sig.1 };
        let wb = spec.wbits();
        let b = if spec.be == "bfv" { spec.fb.unwrap_or(wb) } else { wb };
        let m = if b >= 64 { u64::MAX } else { (1u64 << b) - 1 };
        mix64_oracle(word) & m
    }

    fn hash_bits_expected(&self) -> usize {
        let spec = self.spec.as_ref().unwrap();
        let wb = spec.wbits();
        if spec.be == "bfv" {
            spec.fb.unwrap_or(wb)
        } else {
            wb
        }
    }

    fn build(&mut self, ctx: &mut Ctx, spec: Spec) {
        self.inst = None;
        self.members.clear();
        self.member_ids.clear();
        self.vals.clear();
        self.last_passes = 0;
        self.last_late = 0;
        LATE_READS.store(0, Ordering::SeqCst);
        let n = spec.n;
        let reply;
        match guarded_build(&spec) {
            Guarded::Timeout => {
                // the build did not return within the (generous) wall-clock guard: "the call always
                // terminates" is violated.  Its thread cannot be cancelled and further hanging
                // builds would cost the guard each, so the run stops here: the check reports the
                // process exit with this op, the last one written, as the failing input
                ctx.reply("timeout");
                eprintln!("build did not return within the wall-clock guard: {}", spec.line());
                std::process::exit(3);
            }
            Guarded::Panic => reply = "panic".to_string(),
            Guarded::Done(out) => {
                self.last_passes = out.passes;
                self.last_late = LATE_READS.load(Ordering::SeqCst);
                if out.passes > 0 {
                    ctx.stat(&format!("attempts:{}", Ord::min(out.passes, 9)));
                    if out.passes >= 9 && std::env::var("FUNC_DEBUG").is_ok() {
                        eprintln!("passes {} {}", out.passes, spec.line());
                    }
                }
                match out.res {
                    Err(e) => reply = e,
                    Ok(inst) => {
                        if spec.take {
                            reply = format!("ok {}", inst.len());
                        } else {
                            reply = "ok".to_string();
                        }
                        self.vals = spec.values();
                        self.member_ids = spec.member_ids().into_iter().collect();
                        if n <= PARTS_MAX_N && spec.dd.is_empty() {
                            for i in 0..n {
                                self.members.insert(inst.sig(KQ::Member(i)), i);
                            }
                        }
                        self.inst = Some(inst);
                    }
                }
            }
        }
        // naive oracle
        let fb_bad = spec.filter
            && spec.be == "bfv"
            && spec.fb.map(|b| b == 0 || b > spec.wbits()).unwrap_or(false);
        if fb_bad {
            // `assert!(filter_bits > 0)`, `assert!(filter_bits <= W::BITS)`
            ctx.check_oracle("panic", &reply);
        } else if spec.take {
            ctx.check_oracle(&format!("ok {}", n), &reply);
        } else if spec.short {
            // not covered by the properties: model vs implementation only
        } else if !spec.dd.is_empty() {
            if spec.dups {
                ctx.check_oracle("err DuplicateKey", &reply);
            }
        } else {
            let att = spec.att.unwrap_or(usize::MAX);
            let reached = match spec.fault {
                Fault::None => false,
                Fault::K(p, i) => p <= att && i <= n,
                Fault::V(p, i) => p <= att && i < n && !spec.filter,
                Fault::Rk(p) => p < att,
                Fault::Rv(p) => p < att && !spec.filter,
            };
            ctx.check_oracle(if reached { "err io" } else { "ok" }, &reply);
        }
        self.spec = Some(spec);
        self.last_reply = reply.clone();
        ctx.reply(&reply);
    }

    pub fn exec(&mut self, ctx: &mut Ctx, line: &str, replaying: bool) {
        let t: Vec<&str> = line.split(' ').filter(|x| !x.is_empty()).collect();
        if t.is_empty() {
            return;
        }
        if t[0] == "case" {
            *self = St::default();
            ctx.case();
            return;
        }
        if t[0] == "build" || t[0] == "build_take" {
            match Spec::parse(&t) {
                Some(spec) => {
                    ctx.op(line);
                    self.build(ctx, spec);
                }
                None => {
                    ctx.op(line);
                    ctx.reply("bad-op");
                }
            }
            return;
        }
        // `parts` carries exported state: when replaying, re-export from the real instance
        let owned;
        let (line, t) = if t[0] == "parts" && replaying && self.inst.is_some() {
            owned = parts_line(
                self.spec.as_ref().unwrap(),
                &self.inst.as_ref().unwrap().parts(),
            );
            let tt: Vec<&str> = owned.split(' ').collect();
            (owned.as_str(), tt)
        } else {
            (line, t)
        };
        ctx.op(line);
        if t[0] == "lender_protocol" {
            // reads of an exhausted, not yet rewound instrumented lender during the last build
            let r = format!("ok {}", self.last_late);
            ctx.check_oracle("ok 0", &r);
            ctx.reply(&r);
            return;
        }
        if t[0] == "attempts" {
            // passes of the instrumented key lender = calls of try_seed
            let r = format!("ok {}", self.last_passes);
            if let Some(spec) = &self.spec {
                if spec.dups && !spec.dd.is_empty() && spec.fault == Fault::None {
                    // D34: a key heavy enough to oversize its shard for every seed is reported
                    // after 32 retries of MaxShardTooBig, other duplicates after 3 retries
                    ctx.check_oracle(if heavy_forced(spec) { "ok 33" } else { "ok 4" }, &r);
                }
            }
            ctx.reply(&r);
            return;
        }
        if t[0] == "crafted_empty_shard" {
            let r = if t.len() != 4 {
                "bad-op".to_string()
            } else {
                match (
                    t[1].parse::<usize>(),
                    if t[2] == "-" { Ok(None) } else { t[2].parse::<usize>().map(Some) },
                    t[3].parse::<usize>(),
                ) {
                    (Ok(n), Ok(empty), Ok(threads)) => crafted_empty_shard(ctx, n, empty, threads),
                    _ => "bad-op".to_string(),
                }
            };
            ctx.reply(&r);
            return;
        }
        let inst = match &self.inst {
            Some(i) => i,
            None => {
                ctx.reply("err nofunc");
                return;
            }
        };
        let sig2 = |t: &[&str]| -> Option<(u64, u64)> {
            if t.len() != 3 {
                return None;
            }
            Some((t[1].parse().ok()?, t[2].parse().ok()?))
        };
        let rep: String = match t[0] {
            "parts" => format!("ok {}", inst.parts().cells.len()),
            "len" => {
                let r = format!("ok {}", inst.len());
                let n = self.spec.as_ref().unwrap().n;
                ctx.check_oracle(&format!("ok {}", n), &r);
                // `is_empty` of the function / filter
                ctx.check_oracle(
                    &format!("is_empty {}", inst.len() == 0),
                    &format!("is_empty {}", inst.is_empty()),
                );
                r
            }
            "hash_bits" | "mask" if !inst.is_filter() => "err kind".into(),
            "hash_bits" => {
                let r = format!("ok {}", inst.hash_bits());
                ctx.check_oracle(&format!("ok {}", self.hash_bits_expected()), &r);
                r
            }
            "mask" => {
                let r = format!("ok {}", inst.mask());
                let b = self.hash_bits_expected();
                let m = if b >= 64 { u64::MAX } else { (1u64 << b) - 1 };
                ctx.check_oracle(&format!("ok {}", m), &r);
                r
            }
            "get" | "getu" => match sig2(&t) {
                None => "bad-op".into(),
                Some(sig) => {
                    let un = t[0] == "getu";
                    if un && !inst.is_bfv() {
                        "err kind".into()
                    } else {
                        let mem = self.members.get(&sig).copied();
                        let r = catch(|| match (mem, un) {
                            (Some(i), false) => inst.get(KQ::Member(i)),
                            (Some(i), true) => inst.getu(KQ::Member(i)),
                            (None, false) => inst.get_by_sig(sig.0, sig.1),
                            (None, true) => inst.getu_by_sig(sig.0, sig.1),
                        });
                        let r = match r {
                            Some(v) => format!("ok {}", v),
                            None => "panic".into(),
                        };
                        if let Some(i) = mem {
                            ctx.check_oracle(&format!("ok {}", self.expected(i, sig)), &r);
                            ctx.stat("member_get");
                        }
                        r
                    }
                }
            },
            "contains" | "containsu" | "index" => match sig2(&t) {
                None => "bad-op".into(),
                Some(sig) => {
                    let un = t[0] == "containsu";
                    if !inst.is_filter() || (un && !inst.is_bfv()) {
                        "err kind".into()
                    } else {
                        let mem = self.members.get(&sig).copied();
                        let r = catch(|| match (mem, t[0]) {
                            (Some(i), "contains") => inst.contains(KQ::Member(i)),
                            (Some(i), "containsu") => inst.containsu(KQ::Member(i)),
                            (Some(i), _) => inst.index(KQ::Member(i)),
                            (None, "containsu") => inst.containsu_by_sig(sig.0, sig.1),
                            (None, _) => inst.contains_by_sig(sig.0, sig.1),
                        });
                        let r = match r {
                            Some(v) => format!("ok {}", b01(v)),
                            None => "panic".into(),
                        };
                        if mem.is_some() {
                            ctx.check_oracle("ok 1", &r);
                            ctx.stat("member_contains");
                        } else {
                            ctx.stat(if r == "ok 1" { "nonmember_pos" } else { "nonmember_neg" });
                        }
                        r
                    }
                }
            },
            "fp" => {
                if t.len() != 3 || !inst.is_filter() {
                    "err kind".into()
                } else {
                    match (t[1].parse::<u32>(), t[2].parse::<u64>()) {
                        (Ok(b), Ok(probes)) => {
                            let spec = self.spec.as_ref().unwrap();
                            let ids = spec.probe_ids(&self.member_ids, 0, probes);
                            let mut pos = 0u64;
                            for &id in &ids {
                                if inst.contains(KQ::Probe(id)) {
                                    pos += 1;
                                }
                            }
                            let nn = ids.len() as f64;
                            let p = if b >= 64 { 0.0 } else { 1.0 / (1u64 << b) as f64 };
                            let mean = nn * p;
                            let sd = (nn * p * (1.0 - p)).sqrt();
                            let inb = ((pos as f64) - mean).abs() <= 6.0 * sd + 1.0;
                            ctx.stat(&format!("fp:b{}:{}of{}", b, pos, ids.len()));
                            let r = if inb { "ok in-band" } else { "ok out-of-band" };
                            ctx.check_oracle("ok in-band", r);
                            r.to_string()
                        }
                        _ => "bad-op".into(),
                    }
                }
            }
            "solve" => {
                // peeling + assignment of an unsharded function build, recomputed by the model:
                // if the 2-core of the hypergraph is empty (naive computation below) the real
                // cells must be exactly what the model's peeler + assign produce from zeros
                // `lge:<log2_buckets>:<check_dups>`: the whole of lge_shard, cells whatever the core
                let lge_tok = |m: &str| -> bool {
                    let p: Vec<&str> = m.split(':').collect();
                    p.len() == 3
                        && p[0] == "lge"
                        && p[1].parse::<u32>().map(|b| b <= 16).unwrap_or(false)
                        && p[2].parse::<u32>().is_ok()
                };
                let (mode_ok, lst) = match t.len() {
                    2 => (true, t[1]),
                    3 => (matches!(t[1], "idx" | "high" | "low") || lge_tok(t[1]), t[2]),
                    _ => (false, ""),
                };
                let is_lge = t.len() == 3 && t[1].starts_with("lge:");
                if !mode_ok {
                    "bad-op".into()
                } else if inst.is_filter() || inst.dims().1 != 1 {
                    "err kind".into()
                } else {
                    let inner = lst.trim_start_matches('[').trim_end_matches(']');
                    let nums: Vec<u64> = if inner.is_empty() {
                        vec![]
                    } else {
                        inner.split(',').filter_map(|x| x.parse().ok()).collect()
                    };
                    let nv = inst.dims().0;
                    let edges: Vec<[usize; 3]> = nums
                        .chunks(3)
                        .filter(|c| c.len() == 3)
                        .map(|c| inst.local_edge(c[0], c[1]))
                        .collect();
                    let core = naive_core_size(nv, &edges);
                    ctx.stat(if core == 0 { "solve_peeled" } else { "solve_core" });
                    if t.len() == 3 {
                        ctx.stat(&format!("solve_named:{}", if is_lge { "lge" } else { t[1] }));
                        if is_lge {
                            ctx.stat(if core == 0 { "solve_lge_peeled" } else { "solve_lge_core" });
                        }
                    }
                    if core == 0 || is_lge {
                        format!("ok peeled {}", fmt_list(inst.parts().cells.iter()))
                    } else {
                        format!("ok core {}", core)
                    }
                }
            }
            "qbig" => {
                if t.len() != 2 {
                    "bad-op".into()
                } else {
                    match t[1].parse::<usize>() {
                        Ok(count) => {
                            let spec = self.spec.as_ref().unwrap();
                            let n = spec.n;
                            let mut wrong = 0usize;
                            if n > 0 && spec.dd.is_empty() {
                                // `count` indices spread over the WHOLE of 0..n (k n / count plus a
                                // jitter), followed by the first and the last 1100 indices (more
                                // than one 1024-record chunk of the offline store)
                                let stride = Ord::max(n / Ord::max(count, 1), 1);
                                let edge = Ord::min(1100, n);
                                let total = count + 2 * edge;
                                let mut k = 0usize;
                                while k < total {
                                    let idx = if k < count {
                                        Ord::min(n - 1, ((k as u128 * n as u128) / count as u128) as usize + k % stride)
                                    } else if k < count + edge {
                                        k - count
                                    } else {
                                        n - 1 - (k - count - edge)
                                    };
                                    let sig = inst.sig(KQ::Member(idx));
                                    let exp = self.expected(idx, sig);
                                    if inst.get(KQ::Member(idx)) != exp {
                                        wrong += 1;
                                    }
                                    if inst.is_filter() && !inst.contains(KQ::Member(idx)) {
                                        wrong += 1;
                                    }
                                    if inst.is_bfv()
                                        && inst.unaligned_ok()
                                        && k % 16 == 0
                                        && inst.getu(KQ::Member(idx)) != exp
                                    {
                                        wrong += 1;
                                    }
                                    k += 1;
                                }
                            }
                            let r = format!("ok {}", wrong);
                            ctx.check_oracle("ok 0", &r);
                            r
                        }
                        Err(_) => "bad-op".into(),
                    }
                }
            }
            _ => "bad-op".into(),
        };
        self.last_reply = rep.clone();
        ctx.reply(&rep);
    }
}

/// size of the 2-core of a 3-uniform hypergraph (naive: repeatedly delete an edge that has a
/// vertex of degree one)
/// D31 search case (see the protocol comment and /verif/findings/D31/d31_demo.rs, whose crafting
/// recipe this follows).  The seed of the first attempt is `SmallRng::seed_from_u64(0).random()`;
/// it is read off a one-key build with the same (default) builder seed, whose first attempt always
/// succeeds and whose stored seed therefore is that value.
#[cfg(feature = "mwhc")]
fn crafted_empty_shard(ctx: &mut Ctx, n: usize, empty: Option<usize>, threads: usize) -> String {
    use sux::func::shard_edge::Mwhc3Shards;
    const BITS: u32 = 7;
    const S: usize = 1 << BITS;
    const EPS: f64 = 0.01;
    // verbatim copies of the private functions of src/func/shard_edge.rs
    fn sharding_high_bits(n: usize, eps: f64) -> u32 {
        let t = (n as f64 * eps * eps / 2.0).max(1.);
        (t.log2() - t.ln().max(1.).log2()).floor() as u32
    }
    fn dup_edge_high_bits(n: usize, c: f64, eta: f64) -> u32 {
        let n = n as f64;
        (0.5 * (n.log2() + 1. + 3. * c.log2() - 3. * 3_f64.log2() + (-(1. - eta).ln()).log2()))
            .floor() as u32
    }
    type B = VBuilder<usize, BitFieldVec<usize>, [u64; 2], Mwhc3Shards>;
    if empty.map(|e| e >= S).unwrap_or(false) || threads == 0 {
        return "err n".into();
    }
    let full = if empty.is_some() { S - 1 } else { S };
    if n == 0 || n % full != 0 {
        return "err n".into();
    }
    let q = n / full;
    if Ord::min(sharding_high_bits(n, EPS), dup_edge_high_bits(n, 1.23, 0.001)) != BITS {
        return "err bits".into();
    }
    if q as f64 > 1.01 * n as f64 / S as f64 {
        return "err guard".into();
    }
    // seed of the first attempt
    let first_seed = match catch(|| {
        B::default().try_build_func(
            FromIntoIterator::from(0u64..1),
            FromIntoIterator::from(0usize..),
            no_logging![],
        )
    }) {
        Some(Ok(f)) => f.verif_parts().1,
        _ => return "err build".into(),
    };
    ctx.stat(&format!("d31_first_seed:{:016x}", first_seed));
    let shard_of = |key: u64| -> usize {
        let sig: [u64; 2] = <u64 as ToSig<[u64; 2]>>::to_sig(&key, first_seed);
        (sig[0] >> (63 - BITS) >> 1) as usize
    };
    // candidates 0, 1, 2, ...; skip the shard to be left empty and shards whose quota is full
    let mut keys: Vec<u64> = Vec::with_capacity(n);
    let mut sizes = vec![0usize; S];
    // sample: per shard the first 512 keys and every (q / 600)-th one (>= 1000 keys per shard)
    let stride = Ord::max(q / 600, 1);
    let mut sample: Vec<(u32, u8)> = Vec::new();
    let mut cand = 0u64;
    while keys.len() < n {
        let s = shard_of(cand);
        if Some(s) != empty && sizes[s] < q {
            if sizes[s] < 512 || sizes[s] % stride == 0 {
                sample.push((keys.len() as u32, s as u8));
            }
            sizes[s] += 1;
            keys.push(cand);
        }
        cand += 1;
    }
    let keys = Arc::new(keys);
    let kk = keys.clone();
    let built = catch(move || {
        B::default()
            .expected_num_keys(n)
            .offline(false)
            .max_num_threads(threads)
            .eps(EPS)
            .try_build_func(
                FromIntoIterator::from(KeyIter { keys: kk, pos: 0 }),
                FromIntoIterator::from(0usize..),
                no_logging![],
            )
    });
    let func = match built {
        Some(Ok(f)) => f,
        Some(Err(_)) => return "err build".into(),
        None => return "panic".into(),
    };
    let shards = func.verif_parts().0.num_shards();
    let mut wrong = vec![0usize; S];
    for &(i, s) in &sample {
        if func.get(&keys[i as usize]) != i as usize {
            wrong[s as usize] += 1;
        }
    }
    let total: usize = wrong.iter().sum();
    let first = wrong.iter().position(|&w| w > 0);
    ctx.stat(&format!("d31_sampled:{}", sample.len()));
    let r = format!(
        "ok shards={} wrong={} first_wrong_shard={}",
        shards,
        total,
        first.map(|k| k.to_string()).unwrap_or_else(|| "-".into())
    );
    ctx.check_oracle(&format!("ok shards={} wrong=0 first_wrong_shard=-", S), &r);
    r
}

#[cfg(not(feature = "mwhc"))]
fn crafted_empty_shard(_ctx: &mut Ctx, _n: usize, _empty: Option<usize>, _threads: usize) -> String {
    "err nomwhc".into()
}

/// a clonable iterator over shared keys (the lender is rewound by cloning it)
#[derive(Clone)]
struct KeyIter {
    keys: Arc<Vec<u64>>,
    pos: usize,
}
impl Iterator for KeyIter {
    type Item = u64;
    fn next(&mut self) -> Option<u64> {
        let r = if self.pos < self.keys.len() { Some(self.keys[self.pos]) } else { None };
        self.pos += 1;
        r
    }
}

fn naive_core_size(nv: usize, edges: &[[usize; 3]]) -> usize {
    let mut deg = vec![0usize; nv];
    for e in edges {
        for &v in e {
            deg[v] += 1;
        }
    }
    let mut alive = vec![true; edges.len()];
    let mut left = edges.len();
    loop {
        let mut progress = false;
        for (i, e) in edges.iter().enumerate() {
            if alive[i] && e.iter().any(|&v| deg[v] == 1) {
                alive[i] = false;
                left -= 1;
                for &v in e {
                    deg[v] -= 1;
                }
                progress = true;
            }
        }
        if !progress {
            return left;
        }
    }
}

pub fn replay(ctx: &mut Ctx, lines: &[String]) {
    let mut st = St::default();
    for l in lines {
        st.exec(ctx, l, true);
    }
}

// ---------------------------------------------------------------------------------------------
// generator

type Combo = (&'static str, &'static str, &'static str, &'static str, &'static str, u32, &'static str);

/// the hash seed of the FIRST attempt of a builder with `.seed(builder_seed)`: read off a one-key
/// build (its first attempt succeeds, so the seed stored in the function is that value)
fn first_attempt_seed(builder_seed: u64) -> Option<u64> {
    match catch(|| {
        VBuilder::<usize, BitFieldVec<usize>>::default().seed(builder_seed).try_build_func(
            FromIntoIterator::from(0usize..1),
            FromIntoIterator::from(0usize..),
            no_logging![],
        )
    }) {
        Some(Ok(f)) => Some(f.verif_parts().1),
        _ => None,
    }
}

/// a builder seed whose FIRST attempt over the keys `0..n` (usize, `FuseLge3Shards`, 2-word
/// signatures, default eps) has a largest shard above 1.01 x the average, so that `try_seed` returns
/// the transient `MaxShardTooBig` and the build loop must rewind and retry
fn seed_with_unbalanced_first_attempt(n: usize, from: u64) -> Option<u64> {
    let mut e = FuseLge3Shards::default();
    <FuseLge3Shards as ShardEdge<[u64; 2], 3>>::set_up_shards(&mut e, n, 0.001);
    let shards = <FuseLge3Shards as ShardEdge<[u64; 2], 3>>::num_shards(&e);
    if shards < 2 {
        return None;
    }
    for bs in from..from + 400 {
        let seed = first_attempt_seed(bs)?;
        let mut cnt = vec![0usize; shards];
        for i in 0..n {
            let sig: [u64; 2] = <usize as ToSig<[u64; 2]>>::to_sig(&i, seed);
            cnt[<FuseLge3Shards as ShardEdge<[u64; 2], 3>>::shard(&e, sig)] += 1;
        }
        let mx = *cnt.iter().max().unwrap();
        if mx as f64 > 1.01 * n as f64 / shards as f64 {
            return Some(bs);
        }
    }
    None
}

/// `dd` pair that puts the two copies of a duplicated key at positions `rank` and `rank + 1` of the
/// signature-sorted order of the first attempt (keys `Ks::Seq(0)` of type usize, single shard):
/// the key with the largest signature is overwritten with the key of sorted rank `rank`
fn dup_at_sorted_rank(n: usize, builder_seed: u64, sw: u32, rank: usize) -> Option<(usize, usize)> {
    let seed = first_attempt_seed(builder_seed)?;
    let mut v: Vec<((u64, u64), usize)> = (0..n)
        .map(|i| {
            let sig = if sw == 2 {
                let s: [u64; 2] = <usize as ToSig<[u64; 2]>>::to_sig(&i, seed);
                (s[0], s[1])
            } else {
                let s: [u64; 1] = <usize as ToSig<[u64; 1]>>::to_sig(&i, seed);
                (s[0], 0)
            };
            (sig, i)
        })
        .collect();
    v.sort();
    if rank + 1 >= n {
        return None;
    }
    Some((v[n - 1].1, v[rank].1))
}

fn base_spec(c: &Combo, n: usize) -> Spec {
    let (kind, lk, kt, w, be, sw, lg) = *c;
    Spec {
        take: lk == "take",
        filter: kind == "filter",
        kt: kt.into(),
        w: w.into(),
        be: be.into(),
        sw,
        lg: lg.into(),
        lk: if lk == "take" { "fii".into() } else { lk.into() },
        n,
        ks: if kt == "u8" { Ks::Perm(1) } else { Ks::Seq(0) },
        vs: Vs::Id,
        fb: None,
        off: false,
        lm: None,
        th: 8,
        eps: None,
        lb: None,
        seed: 0,
        hint: None,
        dups: false,
        dd: vec![],
        short: false,
        fault: Fault::None,
        att: None,
    }
}

fn combo_of(kind: &str, lk: &str, kt: &str, w: &str, be: &str, sw: u32, lg: &str) -> Combo {
    *COMBOS
        .iter()
        .find(|c| c.0 == kind && c.1 == lk && c.2 == kt && c.3 == w && c.4 == be && c.5 == sw && c.6 == lg)
        .unwrap_or_else(|| panic!("combo {} {} {} {} {} {} {}", kind, lk, kt, w, be, sw, lg))
}

fn nclass(n: usize) -> &'static str {
    match n {
        0 => "0",
        1..=3 => "1-3",
        4..=100 => "4-100",
        101..=1000 => "101-1000",
        1001..=5000 => "1k-5k",
        5001..=100_000 => "5k-100k",
        100_001..=800_000 => "100k-800k",
        _ => ">800k",
    }
}

const EXTREME_SIGS: &[(u64, u64)] = &[
    (0, 0),
    (u64::MAX, u64::MAX),
    (0, u64::MAX),
    (u64::MAX, 0),
    (1, 1),
    (1 << 63, 1 << 63),
    (u64::MAX - 1, (1 << 32) - 1),
    (1 << 32, 1 << 32),
    ((1 << 63) - 1, u64::MAX << 32),
];

/// silent probing run: number of attempts of the (unfaulted) build, `None` if it does not succeed
fn probe_attempts(spec: &Spec) -> Option<usize> {
    let mut s = spec.clone();
    s.fault = Fault::None;
    s.take = false;
    s.lk = "vec".into();
    match guarded_build(&s) {
        Guarded::Done(BuildOut { res: Ok(_), passes }) => Some(passes),
        _ => None,
    }
}

/// smallest builder seed >= `from` for which the first attempt of `spec` fails (attempts > 1)
fn find_retry_seed(spec: &Spec, from: u64, want_retry: bool) -> Option<(u64, usize)> {
    let mut s = spec.clone();
    for seed in from..from + 400 {
        s.seed = seed;
        if let Some(a) = probe_attempts(&s) {
            if (a > 1) == want_retry {
                return Some((seed, a));
            }
        }
    }
    None
}

struct Opts {
    /// query every member (n <= PARTS_MAX_N) / sample size for big builds
    big_sample: usize,
    fp_probes: u64,
    unaligned_every: usize,
    /// export `parts` and issue `solve` whatever `n` is (directed signature-peeler cases)
    force_parts: bool,
}

/// D34: after the `dd` assignments one key has more than `1.01 * n / shards` copies, so its shard
/// is too big whatever the seed (`shards` as `set_up_shards(n)` of the fuse logics fixes it for
/// n <= 800 000; beyond that it depends on floating point and the answer is `false`)
fn heavy_forced(spec: &Spec) -> bool {
    let n = spec.n;
    if spec.dd.is_empty() || n == 0 {
        return false;
    }
    let shards: u128 = if spec.lg == "noshards" {
        1
    } else if n <= 800_000 {
        1 << Ord::max(n / 50_000, 1).ilog2()
    } else {
        return false;
    };
    let mut ids: Vec<usize> = (0..n).collect();
    for &(dst, src) in &spec.dd {
        if dst < n && src < n {
            ids[dst] = ids[src];
        }
    }
    let mut cnt = vec![0usize; n];
    for &i in &ids {
        cnt[i] += 1;
    }
    let m = cnt.into_iter().max().unwrap_or(0) as u128;
    101 * (n as u128) < 100 * m * shards
}

/// `log2_buckets` of the signature store as `build_loop` fixes it (`None`: depends on the
/// floating-point `sharding_high_bits`, not re-derived here)
fn log2_buckets_of(spec: &Spec) -> Option<u32> {
    match spec.hint {
        None => Some(spec.lb.unwrap_or(8)),
        Some(h) => {
            if spec.lg == "noshards" {
                Some(0)
            } else if h <= 800_000 {
                Some(Ord::max(h / 50_000, 1).ilog2())
            } else {
                None
            }
        }
    }
}

/// which peeler `try_build_from_shard_iter` selects (`lge` as returned by `set_up_graphs` of the
/// three fuse logics; `num_threads = num_shards.min(max_num_threads)`)
fn peel_mode(spec: &Spec, n: usize, num_shards: usize) -> &'static str {
    let lge = if spec.lg == "noshards" { n <= 100_000 } else { n <= 800_000 };
    if lge {
        "idx"
    } else if spec.lm == Some(true)
        || (spec.lm.is_none() && Ord::min(num_shards, spec.th) > 3 && num_shards > 2)
    {
        "low"
    } else {
        "high"
    }
}

fn run_case(ctx: &mut Ctx, spec: &Spec, o: &Opts) {
    let mut st = St::default();
    st.exec(ctx, "case", false);
    ctx.shape(format!(
        "{}:{}:{}:{}:{}:{}:{}:n{}:f{}:d{}",
        if spec.take { "take" } else if spec.filter { "filter" } else { "func" },
        spec.lk,
        spec.kt,
        spec.w,
        spec.be,
        spec.sw,
        spec.lg,
        nclass(spec.n),
        match spec.fault {
            Fault::None => 0,
            Fault::K(..) => 1,
            Fault::V(..) => 2,
            Fault::Rk(..) => 3,
            Fault::Rv(..) => 4,
        },
        spec.dd.len().min(3)
    ));
    ctx.stat(&format!("n:{}", nclass(spec.n)));
    ctx.stat(&format!("cfg:off{}:lm{:?}:th{}", b01(spec.off), spec.lm, spec.th));
    st.exec(ctx, &spec.line(), false);
    if spec.lk == "vec" && !spec.take {
        st.exec(ctx, "lender_protocol", false);
    }
    if spec.lk == "vec"
        && !spec.take
        && !spec.short
        && (spec.att.is_some()
            || (spec.dups && !spec.dd.is_empty() && (spec.n < 50_000 || heavy_forced(spec))))
    {
        st.exec(ctx, "attempts", false);
    }
    if st.inst.is_none() {
        return;
    }
    if spec.take {
        st.exec(ctx, "len", false);
        return;
    }
    let n = spec.n;
    // no model of the MWHC edge logic on the Lean side: no exported cells, sampled member queries only
    let modelled = spec.lg != "mwhc";
    if modelled && (n <= PARTS_MAX_N || o.force_parts) {
        let pl = parts_line(spec, &st.inst.as_ref().unwrap().parts());
        st.exec(ctx, &pl, false);
        if !spec.filter
            && (n <= SOLVE_MAX_N || o.force_parts)
            && st.inst.as_ref().unwrap().dims().1 == 1
        {
            let vals = spec.values();
            let mut flat: Vec<u64> = Vec::with_capacity(3 * n);
            for i in 0..n {
                let (s0, s1) = st.inst.as_ref().unwrap().sig(KQ::Member(i));
                flat.push(s0);
                flat.push(s1);
                flat.push(vals[i]);
            }
            // the peeler the real build used; for small instances also the other two
            let mode = peel_mode(spec, st.inst.as_ref().unwrap().len(), 1);
            ctx.stat(&format!("solve_real_mode:{}", mode));
            let lst = fmt_list(flat.iter());
            st.exec(ctx, &format!("solve {} {}", mode, lst), false);
            // lge_shard in full (equation order = order of the shard as the worker sees it)
            if mode == "idx" && spec.dd.is_empty() {
                if let Some(b) = log2_buckets_of(spec) {
                    st.exec(
                        ctx,
                        &format!("solve lge:{}:{} {}", b, b01(spec.dups), lst),
                        false,
                    );
                }
            }
            if n <= 300 {
                for m in ["idx", "high", "low"] {
                    if m != mode {
                        st.exec(ctx, &format!("solve {} {}", m, lst), false);
                    }
                }
            }
        }
    }
    st.exec(ctx, "len", false);
    if spec.filter {
        st.exec(ctx, "hash_bits", false);
        st.exec(ctx, "mask", false);
    }
    let un = {
        let i = st.inst.as_ref().unwrap();
        i.is_bfv() && i.unaligned_ok()
    };
    if modelled && n <= PARTS_MAX_N {
        for i in 0..n {
            let (s0, s1) = st.inst.as_ref().unwrap().sig(KQ::Member(i));
            st.exec(ctx, &format!("get {} {}", s0, s1), false);
            if un && i % o.unaligned_every == 0 {
                st.exec(ctx, &format!("getu {} {}", s0, s1), false);
            }
            if spec.filter {
                st.exec(ctx, &format!("contains {} {}", s0, s1), false);
                if i % 7 == 0 {
                    st.exec(ctx, &format!("index {} {}", s0, s1), false);
                }
                if un && i % o.unaligned_every == 0 {
                    st.exec(ctx, &format!("containsu {} {}", s0, s1), false);
                }
            }
        }
        // non-member probes: extreme and random signatures, and signatures of non-member keys
        let mut sigs: Vec<(u64, u64)> = EXTREME_SIGS.to_vec();
        for _ in 0..6 {
            sigs.push((ctx.rng.next_u64(), ctx.rng.next_u64()));
        }
        sigs.push((ctx.rng.word(), ctx.rng.word()));
        let pids = spec.probe_ids(&st.member_ids, 0, 4);
        for id in pids {
            sigs.push(st.inst.as_ref().unwrap().sig(KQ::Probe(id)));
        }
        for (s0, s1) in sigs {
            let s1 = if spec.sw == 1 { 0 } else { s1 };
            if st.members.contains_key(&(s0, s1)) {
                continue;
            }
            st.exec(ctx, &format!("get {} {}", s0, s1), false);
            if un {
                st.exec(ctx, &format!("getu {} {}", s0, s1), false);
            }
            if spec.filter {
                st.exec(ctx, &format!("contains {} {}", s0, s1), false);
            }
        }
    } else {
        st.exec(ctx, &format!("qbig {}", o.big_sample), false);
    }
    if spec.filter && o.fp_probes > 0 {
        let b = st.hash_bits_expected() as u32;
        st.exec(ctx, &format!("fp {} {}", b, o.fp_probes), false);
    }
}

fn vs_of(k: usize, seed: u64, wb: usize) -> Vs {
    match k % 6 {
        0 => Vs::Id,
        1 => Vs::Zero,
        2 => Vs::Ones,
        3 => Vs::Rnd(seed),
        4 => Vs::RndB((1 + seed % wb as u64) as u32, seed),
        _ => Vs::RndB(1, seed),
    }
}

fn wbits_of(w: &str) -> usize {
    match w {
        "8" => 8,
        "16" => 16,
        "32" => 32,
        _ => 64,
    }
}

fn max_n_for(kt: &str) -> usize {
    match kt {
        "u8" => 256,
        "strref" | "sliceu32" => 2000,
        _ => usize::MAX,
    }
}

fn fault_cases(ctx: &mut Ctx, base: &Spec, o: &Opts, idxs: &[usize], thorough: bool) {
    // key errors on the first pass
    for &i in idxs {
        let mut s = base.clone();
        s.fault = Fault::K(1, i);
        s.att = probe_attempts(base);
        if s.att.is_none() {
            continue;
        }
        run_case(ctx, &s, o);
    }
    if base.filter {
        return;
    }
    let vi: Vec<usize> = if thorough {
        idxs.to_vec()
    } else {
        idxs.iter().copied().filter(|i| i % 5 == 0 || *i + 2 >= base.n).collect()
    };
    for &i in &vi {
        let mut s = base.clone();
        s.fault = Fault::V(1, i);
        s.att = probe_attempts(base);
        if s.att.is_none() {
            continue;
        }
        run_case(ctx, &s, o);
    }
}

pub fn run(ctx: &mut Ctx) {
    let thorough = ctx.tier == Tier::Thorough;
    let o = Opts {
        big_sample: if thorough { 20000 } else { 3000 },
        fp_probes: 0,
        unaligned_every: 3,
        force_parts: false,
    };
    let default_func = combo_of("func", "vec", "usize", "size", "bfv", 2, "shards");
    let box_func = combo_of("func", "vec", "usize", "64", "box", 2, "shards");
    let ns1_func = combo_of("func", "vec", "usize", "64", "box", 1, "noshards");
    let ns2_func = combo_of("func", "vec", "usize", "64", "bfv", 2, "noshards");
    let fs_func = combo_of("func", "vec", "usize", "64", "bfv", 2, "fullsigs");
    let fs_filter = combo_of("filter", "vec", "usize", "8", "box", 2, "fullsigs");

    // ---------------- directed core (independent of the seed) ----------------
    // A. every type combination once, small n cycling through the regime boundaries
    let ns = [0usize, 1, 2, 3, 5, 10, 33, 100, 101, 257];
    let fbs = [1usize, 2, 3, 5, 8, 13, 16, 64];
    for (k, c) in COMBOS.iter().enumerate() {
        if c.1 == "take" {
            continue;
        }
        let n = Ord::min(ns[k % ns.len()], Ord::min(max_n_for(c.2), 200));
        let mut s = base_spec(c, n);
        let wb = wbits_of(c.3);
        s.vs = vs_of(k, 1000 + k as u64, wb);
        if c.2 != "u8" {
            s.ks = if k % 3 == 1 { Ks::Rnd(77 + k as u64) } else { Ks::Seq((k as u64) * 1000) };
        }
        if c.0 == "filter" && c.4 == "bfv" {
            s.fb = Some(Ord::min(fbs[k % fbs.len()], wb));
        }
        s.seed = k as u64;
        let oo = Opts {
            big_sample: 0,
            fp_probes: if c.0 == "filter" && c.2 != "u8" { 1 << 12 } else { 0 },
            unaligned_every: 1,
            force_parts: false,
        };
        run_case(ctx, &s, &oo);
    }
    // B. 100 / 101 / 1000 with every value shape, default and unsharded logic
    for (k, &n) in [100usize, 101, 1000].iter().enumerate() {
        for v in 0..6 {
            let mut s = base_spec(if v % 2 == 0 { &default_func } else { &ns1_func }, n);
            s.vs = vs_of(v, 5 + v as u64, 64);
            s.seed = (k * 10 + v) as u64;
            run_case(ctx, &s, &o);
        }
    }
    // C. hints: absent, exact, too small, too large, around the 50 000 * 2^k shard boundaries
    for &n in &[0usize, 1, 1000] {
        let hints: Vec<Option<usize>> = vec![
            None,
            Some(n),
            Some(n / 400),
            Some(400 * n),
            Some(49_999),
            Some(50_000),
            Some(99_999),
            Some(100_000),
            Some(100_001),
            Some(199_999),
            Some(200_000),
            Some(400_000),
            Some(800_000),
            Some(800_001),
            Some(10_000_001),
            Some(20_000_001),
        ];
        for (k, h) in hints.iter().enumerate() {
            if n != 1000 && k % 3 != 0 {
                continue;
            }
            let c = [&default_func, &box_func, &fs_func][k % 3];
            let mut s = base_spec(c, n);
            s.hint = *h;
            s.vs = Vs::Rnd(k as u64);
            s.off = k % 4 == 3;
            run_case(ctx, &s, &o);
        }
    }
    // D. performance knobs at n = 1000: offline x low_mem x threads x buckets x eps
    {
        let mut k = 0u64;
        for off in [false, true] {
            for lm in [None, Some(false), Some(true)] {
                for th in [1usize, 2, 8] {
                    let c = [&default_func, &ns2_func, &fs_func, &ns1_func][(k % 4) as usize];
                    let mut s = base_spec(c, 1000);
                    s.off = off;
                    s.lm = lm;
                    s.th = th;
                    s.lb = [None, Some(0), Some(1), Some(4), Some(6)][(k % 5) as usize];
                    s.eps = [None, Some("0.01".to_string()), Some("0.1".to_string()), Some("0.0001".to_string())]
                        [(k % 4) as usize]
                        .clone();
                    s.vs = Vs::Rnd(k);
                    s.ks = Ks::Rnd(k + 9);
                    s.seed = k;
                    run_case(ctx, &s, &o);
                    k += 1;
                }
            }
        }
    }
    // E. filters: hash widths and false-positive rate
    {
        let fo = |b: u32| Opts {
            big_sample: 2000,
            fp_probes: Ord::min(1u64 << Ord::min(b + 8, 20), 1 << 20),
            unaligned_every: 5,
            force_parts: false,
        };
        for (k, &b) in [1u32, 2, 3, 5, 8, 13, 16, 24, 32, 64].iter().enumerate() {
            let c = combo_of("filter", "vec", "usize", "64", "bfv", 2, "shards");
            let mut s = base_spec(&c, 500 + 100 * k);
            s.fb = Some(b as usize);
            s.ks = Ks::Rnd(k as u64);
            run_case(ctx, &s, &fo(b));
        }
        for (w, b) in [("8", 8u32), ("16", 16), ("32", 32), ("64", 64)] {
            let c = combo_of("filter", "vec", "usize", w, "box", 2, "shards");
            let s = base_spec(&c, 700);
            run_case(ctx, &s, &fo(b));
        }
        let c = combo_of("filter", "vec", "usize", "8", "box", 1, "noshards");
        run_case(ctx, &base_spec(&c, 3000), &fo(8));
        let c = combo_of("filter", "vec", "string", "8", "box", 2, "shards");
        run_case(ctx, &base_spec(&c, 300), &fo(8));
        let c = combo_of("filter", "vec", "usize", "16", "bfv", 2, "shards");
        let mut s = base_spec(&c, 20_000);
        s.fb = Some(7);
        run_case(ctx, &s, &fo(7));
    }
    // F. C17: fault enumeration.  n = 50 keys, function and filter, online and offline
    {
        let all: Vec<usize> = (0..=52).collect();
        let some: Vec<usize> = vec![0, 1, 7, 40, 49, 50, 51];
        let mut fbase = base_spec(&default_func, 50);
        fbase.vs = Vs::Rnd(3);
        fault_cases(ctx, &fbase, &o, &all, thorough);
        let mut s = fbase.clone();
        s.off = true;
        s.lb = Some(2); // 4 temporary files per attempt instead of 256
        fault_cases(ctx, &s, &o, &some, thorough);
        let fc = combo_of("filter", "vec", "usize", "8", "box", 2, "shards");
        fault_cases(ctx, &base_spec(&fc, 50), &o, &some, thorough);
        let sc = combo_of("func", "vec", "str", "64", "box", 1, "noshards");
        fault_cases(ctx, &base_spec(&sc, 41), &o, &some, thorough);
        // the crate's own LineLender over a reader that fails exactly at a line start: the error
        // must surface as an error of the build, never as an early end of the key stream
        let lc = combo_of("func", "line", "str", "size", "bfv", 2, "shards");
        fault_cases(ctx, &base_spec(&lc, 45), &o, &some, thorough);
        let lfc = combo_of("filter", "line", "str", "8", "box", 2, "shards");
        fault_cases(ctx, &base_spec(&lfc, 30), &o, &[0, 1, 15, 29, 30], thorough);
        // sampled beyond index 40 in a larger set
        let mut big = base_spec(&box_func, 3000);
        big.vs = Vs::Rnd(8);
        fault_cases(ctx, &big, &o, &[41, 100, 1500, 2999, 3000, 3001], thorough);
        // second pass / rewind faults need a retry: search a builder seed whose first attempt fails
        for (nn, c) in [(40usize, &default_func), (60, &ns1_func), (25, &fs_func)] {
            let mut b = base_spec(c, nn);
            b.vs = Vs::Rnd(11);
            if let Some((seed, att)) = find_retry_seed(&b, 0, true) {
                b.seed = seed;
                b.att = Some(att);
                ctx.stat("retry_seed_found");
                let mut plain = b.clone();
                plain.att = Some(att);
                run_case(ctx, &plain, &o);
                let mut faults = vec![
                    Fault::K(2, 0),
                    Fault::K(2, nn / 2),
                    Fault::K(2, nn),
                    Fault::V(2, 0),
                    Fault::V(2, nn - 1),
                    Fault::Rk(1),
                    Fault::Rv(1),
                    Fault::K(att, 3),
                    Fault::K(att + 1, 3),
                    Fault::V(att + 1, 3),
                    Fault::Rk(att),
                    Fault::Rv(att),
                ];
                if thorough {
                    for i in 0..=nn {
                        faults.push(Fault::K(2, i));
                    }
                }
                for f in faults {
                    let mut s = b.clone();
                    s.fault = f;
                    run_case(ctx, &s, &o);
                }
            }
        }
        // rewind faults without retry are never reached
        for f in [Fault::Rk(1), Fault::Rv(1), Fault::K(2, 0), Fault::V(3, 1)] {
            let mut b = base_spec(&default_func, 30);
            b.vs = Vs::Zero; // constant values: always solvable at the first attempt
            if let Some((seed, att)) = find_retry_seed(&b, 0, false) {
                b.seed = seed;
                b.att = Some(att);
                b.fault = f;
                run_case(ctx, &b, &o);
            }
        }
        // not enough values
        let mut s = base_spec(&default_func, 20);
        s.short = true;
        run_case(ctx, &s, &o);
        // duplicates with check_dups(true): placements and multiplicities
        let dsets: Vec<(usize, Vec<(usize, usize)>)> = vec![
            (2, vec![(1, 0)]),
            (10, (1..10).map(|i| (i, 0)).collect()),
            (50, vec![(49, 0)]),
            (50, vec![(1, 0)]),
            (50, vec![(25, 24)]),
            (101, vec![(100, 50), (7, 50)]),
            (1000, vec![(999, 0)]),
            (1000, vec![(500, 499), (3, 2), (900, 2)]),
            (3000, vec![(1234, 2999)]),
        ];
        let dcombos = [
            default_func,
            ns1_func,
            fs_func,
            combo_of("filter", "vec", "usize", "8", "box", 2, "shards"),
            combo_of("filter", "vec", "usize", "64", "bfv", 1, "noshards"),
            combo_of("func", "vec", "string", "size", "bfv", 2, "shards"),
        ];
        let mut k = 0usize;
        for (n, dd) in &dsets {
            for c in &dcombos {
                if !thorough && (k % 2 == 1) && *n > 100 {
                    k += 1;
                    continue;
                }
                let mut s = base_spec(c, *n);
                s.dd = dd.clone();
                s.dups = true;
                s.off = k % 3 == 1;
                s.lb = if s.off && k % 2 == 0 { Some(3) } else { None };
                s.th = [1, 2, 8][k % 3];
                s.vs = Vs::Rnd(k as u64);
                s.seed = k as u64;
                run_case(ctx, &s, &o);
                k += 1;
            }
        }
        // duplicates whose two copies sit at chosen positions of the SORTED signature order of the
        // first attempt (every power-of-two boundary and its neighbours): a duplicate scan that
        // works by blocks, pairs or chunks must still compare across its seams. Filters (and
        // constant-valued functions) matter most: equal values make the doubled equation consistent,
        // so a missed duplicate yields Ok instead of DuplicateKey.
        {
            let n = if thorough { 20_000 } else { 9_000 };
            let mut ranks: Vec<usize> = vec![0, 1, 2];
            let mut p = 2usize;
            while p < n {
                ranks.extend([p - 2, p - 1, p]);
                p *= 2;
            }
            ranks.push(n - 3);
            ranks.sort();
            ranks.dedup();
            let rcombos = [
                combo_of("filter", "vec", "usize", "8", "box", 2, "shards"),
                combo_of("filter", "vec", "usize", "64", "bfv", 1, "noshards"),
                default_func,
            ];
            for (j, r) in ranks.iter().enumerate() {
                if !thorough && j % 2 == 1 && *r > 8 && *r != 4095 && *r != 4096 {
                    continue;
                }
                let c = &rcombos[j % rcombos.len()];
                let bs = 1000 + j as u64;
                if let Some(pair) = dup_at_sorted_rank(n, bs, c.5, *r) {
                    let mut s = base_spec(c, n);
                    s.dd = vec![pair];
                    s.dups = true;
                    s.seed = bs;
                    s.th = [1, 2, 8][j % 3];
                    s.off = j % 4 == 3;
                    // equal values for the two copies also in the function case
                    s.vs = Vs::Zero;
                    ctx.stat("dup_at_sorted_rank");
                    run_case(ctx, &s, &o);
                }
            }
        }
        // duplicates in the SHARDED regime with fewer worker threads than shards: the duplicate is
        // detected by one worker in one attempt, and every later attempt must detect it again
        // (per-attempt state such as the fast-stop flag must not leak from one attempt to the next)
        {
            let plan: Vec<(usize, usize, Combo)> = if thorough {
                vec![
                    (100_001, 1, default_func),
                    (100_001, 1, combo_of("filter", "vec", "usize", "8", "box", 2, "fullsigs")),
                    (200_001, 2, box_func),
                    (200_001, 1, default_func),
                ]
            } else {
                vec![(100_001, 1, default_func)]
            };
            for (j, (n, th, c)) in plan.into_iter().enumerate() {
                for (dst, src) in [(n - 1, 0), (n / 2, n / 2 + 1)] {
                    let mut s = base_spec(&c, n);
                    s.dd = vec![(dst, src)];
                    s.dups = true;
                    s.th = th;
                    s.seed = 40 + j as u64;
                    s.vs = Vs::Zero;
                    s.off = j % 2 == 1;
                    ctx.stat("dup_sharded_few_threads");
                    run_case(ctx, &s, &o);
                    if !thorough {
                        break;
                    }
                }
            }
        }
        // D34: ONE key repeated so often that its shard is too big for every seed (the transient
        // MaxShardTooBig hides the duplicates forever): the build must still end with DuplicateKey
        {
            // 3000 of 100 001 (2 shards) and 5000 of 200 001 (4 shards) oversize the shard only
            // with overwhelming probability; 51 000, 60 000, 52 000 copies do so for every seed
            // (`heavy_forced`): for those the model answers from the D34 arm of `build_loop` and the
            // number of attempts (33) is compared as well
            let plan: Vec<(usize, usize, Combo)> = if thorough {
                vec![
                    (100_001, 3000, default_func),
                    (100_001, 51_000, default_func),
                    (100_001, 60_000, combo_of("filter", "vec", "usize", "8", "box", 2, "shards")),
                    (200_001, 5000, box_func),
                    (200_001, 52_000, box_func),
                    (100_001, 50_600, combo_of("func", "vec", "usize", "64", "bfv", 2, "fullsigs")),
                ]
            } else {
                vec![(100_001, 3000, default_func), (100_001, 51_000, default_func)]
            };
            for (j, (n, copies, c)) in plan.into_iter().enumerate() {
                let mut s = base_spec(&c, n);
                s.dd = (1..copies).map(|i| (i, 0)).collect();
                s.dups = true;
                s.seed = 70 + j as u64;
                s.off = j % 2 == 1;
                ctx.stat("heavy_duplicate_key");
                if heavy_forced(&s) {
                    ctx.stat("heavy_duplicate_key_forced");
                }
                run_case(ctx, &s, &o);
            }
        }
        // a transient MaxShardTooBig on the first attempt (sharded regime, unbalanced first seed):
        // the loop must rewind both lenders before the next attempt
        {
            let plan: Vec<(usize, Combo, bool)> = if thorough {
                vec![
                    (200_000, default_func, false),
                    (200_000, combo_of("filter", "vec", "usize", "8", "box", 2, "shards"), true),
                    (400_000, box_func, false),
                    (150_000, default_func, true),
                ]
            } else {
                vec![(200_000, default_func, false)]
            };
            for (j, (n, c, off)) in plan.into_iter().enumerate() {
                if let Some(bs) = seed_with_unbalanced_first_attempt(n, 5000 + 1000 * j as u64) {
                    let mut s = base_spec(&c, n);
                    s.seed = bs;
                    s.off = off;
                    s.vs = Vs::Rnd(j as u64 + 3);
                    ctx.stat("retry_after_max_shard_too_big");
                    run_case(ctx, &s, &o);
                }
            }
        }
        // check_dups(true) without duplicates builds normally
        for c in &dcombos {
            let mut s = base_spec(c, 300);
            s.dups = true;
            run_case(ctx, &s, &o);
        }
    }
    // G. library lenders; D18: lender::Take forgets its original count on rewind
    {
        let tc = combo_of("func", "take", "usize", "size", "bfv", 2, "shards");
        let mut b = base_spec(&tc, 40);
        b.vs = Vs::Rnd(11);
        // control: first attempt succeeds
        let mut probe = b.clone();
        probe.take = false;
        probe.lk = "vec".into();
        if let Some((seed, att)) = find_retry_seed(&probe, 0, false) {
            let mut s = b.clone();
            s.seed = seed;
            s.att = Some(att);
            run_case(ctx, &s, &o);
        }
        // the finding: first attempt fails, the rewound Take lends nothing
        if let Some((seed, att)) = find_retry_seed(&probe, 0, true) {
            b.seed = seed;
            b.att = Some(att);
            ctx.stat("d18_exhibited");
            run_case(ctx, &b, &o);
        }
    }

    // H. the signature peelers on the real code: unsharded fuse logic above 100 000 keys has
    //    lge = false, so `low_mem` selects peel_by_sig_vals_{high,low}_mem; cells exported and
    //    re-solved by the model with the same peeler
    {
        let ho = Opts {
            big_sample: 500,
            fp_probes: 0,
            unaligned_every: 50,
            force_parts: true,
        };
        let mut hs: Vec<(usize, Combo, Option<bool>, usize)> = vec![
            (100_001, ns1_func, Some(true), 1),
            (100_001, ns1_func, None, 8),
        ];
        if thorough {
            hs.push((100_001, ns2_func, Some(true), 2));
            hs.push((100_001, ns2_func, Some(false), 1));
            hs.push((131_072, ns1_func, Some(true), 8));
            hs.push((150_000, ns1_func, Some(false), 2));
        }
        for (k, (n, c, lm, th)) in hs.into_iter().enumerate() {
            let mut s = base_spec(&c, n);
            s.lm = lm;
            s.th = th;
            s.vs = Vs::Rnd(40 + k as u64);
            s.ks = if k % 2 == 0 { Ks::Seq(7 * k as u64) } else { Ks::Rnd(90 + k as u64) };
            s.seed = k as u64;
            run_case(ctx, &s, &ho);
        }
    }


    // J. API audit: every VBuilder setter at its extreme values and in combination (D16, D31 and
    //    the seeded changes C07-d / C17-c were all configuration dependent)
    {
        // J1. n = 400 (cheap): one knob after the other walks through its extremes while the
        //     others cycle with co-prime periods
        let ths = [3usize, 4, 64, usize::MAX, 1, 2, 8];
        let epss = ["0", "1e-12", "1", "1e9", "NaN", "inf", "-1", "0.001"];
        let lbs_on = [Some(10u32), Some(12), None, Some(0), Some(7)];
        let lbs_off = [Some(0u32), Some(1), Some(5), Some(3)];
        let hints = [Some(0usize), Some(1), Some(399), Some(401), None, Some(400)];
        let seeds = [u64::MAX, 0, 1 << 63, 0x5555_5555_5555_5555];
        let lms = [None, Some(true), Some(false)];
        let jc = [
            default_func,
            box_func,
            ns1_func,
            fs_func,
            combo_of("filter", "vec", "usize", "8", "box", 2, "shards"),
            combo_of("filter", "vec", "usize", "64", "bfv", 2, "fullsigs"),
            ns2_func,
        ];
        let rounds = if thorough { 120 } else { 36 };
        for k in 0..rounds {
            let c = &jc[k % jc.len()];
            let mut s = base_spec(c, if k % 9 == 8 { 0 } else { 400 });
            s.off = k % 4 == 1;
            s.th = ths[k % ths.len()];
            s.eps = Some(epss[k % epss.len()].to_string());
            s.lb = if s.off { lbs_off[k % lbs_off.len()] } else { lbs_on[k % lbs_on.len()] };
            s.hint = hints[k % hints.len()];
            s.seed = seeds[k % seeds.len()];
            s.lm = lms[k % lms.len()];
            s.dups = k % 5 == 2;
            s.vs = Vs::Rnd(k as u64);
            s.ks = if k % 2 == 0 { Ks::Rnd(1000 + k as u64) } else { Ks::Seq(k as u64) };
            if c.0 == "filter" && c.4 == "bfv" {
                s.fb = Some([1usize, 64, 7, 33][k % 4]);
            }
            ctx.stat("setter_extremes");
            run_case(ctx, &s, &o);
        }
        // J2. `try_build_filter(keys, filter_bits, ..)` outside 1..=W::BITS: explicit `assert!`s
        for (w, fb) in [("64", 0usize), ("64", 65), ("8", 9), ("16", 0), ("size", 1000)] {
            let c = combo_of("filter", "vec", "usize", w, "bfv", 2, "shards");
            let mut s = base_spec(&c, 10);
            s.fb = Some(fb);
            ctx.stat("filter_bits_out_of_range");
            run_case(ctx, &s, &o);
        }
        // J3. Mwhc3Shards, 120 000 keys, eps = 1: 4 shards and no lazy Gaussian elimination, so
        //     offline x low_mem x threads (below / at / above the `> 3` threshold and the number of
        //     shards) select the store, the peeler and the worker / shard ratio
        if cfg!(feature = "mwhc") {
            let mw = |kind: &str, w: &str, be: &str, n: usize| -> Spec {
                let mut s = base_spec(&(if kind == "func" { default_func } else { fs_filter }), n);
                s.filter = kind == "filter";
                s.w = w.into();
                s.be = be.into();
                s.lg = "mwhc".into();
                s.eps = Some("1".into());
                s
            };
            let mut k = 0usize;
            for off in [false, true] {
                for lm in [None, Some(false), Some(true)] {
                    for th in [1usize, 2, 3, 4, 8] {
                        if !thorough && off && th == 2 {
                            continue;
                        }
                        let mut s = match k % 4 {
                            0 | 2 => mw("func", "size", "bfv", 120_000),
                            1 => mw("func", "64", "box", 120_000),
                            _ => mw("filter", "8", "box", 120_000),
                        };
                        s.off = off;
                        s.lm = lm;
                        s.th = th;
                        // bucket bits below / at / above the 2 shard bits
                        s.lb = if off { [Some(0u32), Some(1), Some(2), Some(3)][k % 4] } else { [Some(0u32), Some(2), Some(4), None][k % 4] };
                        s.hint = [None, Some(120_000usize), Some(300), Some(20_000_000), Some(0)][k % 5];
                        if s.hint.is_some() && off {
                            // the hint overrides log2_buckets with the shard bits of the hint
                            s.hint = [Some(120_000usize), Some(300), Some(0)][k % 3];
                        }
                        s.dups = k % 3 == 1;
                        s.seed = k as u64;
                        s.vs = Vs::Rnd(k as u64 + 1);
                        ctx.stat("mwhc_sharded_knobs");
                        run_case(ctx, &s, &o);
                        k += 1;
                    }
                }
            }
            // eps decides the number of shards (1, 2, 4, 8) at every size
            for (j, (n, eps)) in [
                (120_000usize, "0.001"), (120_000, "0.05"), (120_000, "0.1"), (120_000, "1e9"), (120_000, "NaN"),
                (120_000, "0"), (500_000, "1"), (500_000, "0.1"), (40_000, "1"), (1000, "1"),
            ]
            .into_iter()
            .enumerate()
            {
                let mut s = if j % 3 == 2 { mw("filter", "64", "bfv", n) } else { mw("func", "size", "bfv", n) };
                if s.filter {
                    s.fb = Some(5);
                }
                s.eps = Some(eps.into());
                s.th = [8usize, 3, 4][j % 3];
                s.off = j % 4 == 3;
                s.lb = if s.off { Some(2) } else { None };
                s.seed = 70 + j as u64;
                s.vs = Vs::Rnd(j as u64);
                ctx.stat("mwhc_eps");
                run_case(ctx, &s, &o);
            }
            // duplicates with fewer threads than shards, function and filter
            for (j, th) in [1usize, 2, 3].into_iter().enumerate() {
                let mut s = if j == 1 { mw("filter", "8", "box", 120_000) } else { mw("func", "size", "bfv", 120_000) };
                s.dd = vec![(119_999, j), (60_000, 60_001)];
                s.dups = true;
                s.th = th;
                s.off = j == 2;
                s.lb = Some(2);
                s.vs = Vs::Zero;
                ctx.stat("mwhc_dup_few_threads");
                run_case(ctx, &s, &o);
            }
        }
        // J4. the default fuse logic in its sharded regime (4 shards at 200 001 keys): an
        //     orthogonal sample of (offline, threads, log2_buckets, hint, check_dups)
        {
            let n = 200_001usize;
            let mut plan: Vec<(bool, usize, Option<u32>, Option<usize>, bool)> = vec![
                (false, 3, Some(0), None, false),
                (true, 4, Some(1), Some(n), true),
            ];
            if thorough {
                plan.extend([
                    (false, 64, Some(12), Some(1), false),
                    (true, 1, Some(3), Some(400 * n), false),
                    (false, usize::MAX, None, Some(0), true),
                    (true, 2, Some(2), None, false),
                    (false, 4, Some(2), Some(n - 1), false),
                    (true, 3, Some(0), Some(n + 1), true),
                ]);
            }
            for (j, (off, th, lb, hint, dups)) in plan.into_iter().enumerate() {
                let c = if j % 2 == 0 { default_func } else { box_func };
                let mut s = base_spec(&c, n);
                s.off = off;
                s.th = th;
                s.lb = lb;
                s.hint = hint;
                s.dups = dups;
                s.seed = 900 + j as u64;
                s.vs = Vs::Rnd(j as u64);
                ctx.stat("fuse_sharded_knobs");
                run_case(ctx, &s, &o);
            }
        }
    }

    // I. defect D31 (a par_solve worker returned on an empty shard): 128 Mwhc3Shards shards, one
    //    of them emptied by crafting the keys against the first-attempt seed, one thread.
    //    Thorough tier only: ~21 s and 3.8 GB per case in the dev profile.
    if thorough && cfg!(feature = "mwhc") {
        for e in [64usize, 0] {
            let mut st = St::default();
            st.exec(ctx, "case", false);
            ctx.shape(format!("crafted_empty_shard:{}", e));
            st.exec(ctx, &format!("crafted_empty_shard 119380000 {} 1", e), false);
        }
    }

    // ---------------- seeded random part ----------------
    let small_ns: Vec<usize> = if thorough {
        (0..=3000).collect()
    } else {
        let mut v: Vec<usize> = Vec::new();
        for _ in 0..70 {
            v.push(ctx.rng.usize_below(301));
        }
        v
    };
    let func_like: Vec<&Combo> = COMBOS.iter().filter(|c| c.1 != "take").collect();
    for n in small_ns {
        let c = loop {
            let c = *ctx.rng.pick(&func_like);
            if n <= max_n_for(c.2) {
                break c;
            }
        };
        let s = random_spec(ctx, c, n);
        let oo = Opts {
            big_sample: 0,
            fp_probes: if c.0 == "filter" && c.2 != "u8" && ctx.rng.chance(1, 4) { 1 << 12 } else { 0 },
            unaligned_every: 2,
            force_parts: false,
        };
        run_case(ctx, &s, &oo);
    }
    let mids: Vec<usize> = if thorough {
        vec![1000, 1023, 1024, 4999, 5000, 5001, 19_999, 20_000, 49_999, 50_000, 50_001, 99_999, 100_000]
    } else {
        vec![1000 + ctx.rng.usize_below(50), 4000 + ctx.rng.usize_below(1000), 20_000]
    };
    for n in mids {
        let c = loop {
            let c = *ctx.rng.pick(&func_like);
            if n <= max_n_for(c.2) && c.2 != "strref" && c.2 != "sliceu32" {
                break c;
            }
        };
        let s = random_spec(ctx, c, n);
        run_case(ctx, &s, &o);
    }
    // the regime switches of the default logic (2 and 4 shards, lazy Gaussian elimination)
    let bigs: Vec<(usize, Combo)> = if thorough {
        vec![
            (100_001, default_func),
            (200_001, box_func),
            (100_001, ns1_func),
            (100_000, ns2_func),
            (199_999, fs_func),
            (800_000, default_func),
            (800_001, default_func),
            (800_001, ns1_func),
            (1_000_000, fs_func),
            (1_000_000, combo_of("filter", "vec", "usize", "8", "box", 2, "shards")),
            (150_000, fs_filter),
            (300_000, combo_of("filter", "vec", "usize", "64", "bfv", 2, "fullsigs")),
        ]
    } else {
        // the non-default sharded logic too (queries go through `ShardEdge::edge`, the build
        // through `shard` + `local_edge`: they must agree on the shard)
        vec![(100_001, default_func), (200_001, box_func), (120_000, fs_filter)]
    };
    // offline store with FEWER buckets than shards (hint far too small, or explicit log2_buckets):
    // the shard iterator must split each bucket file into several shards, chunk by chunk,
    // including the last partial chunk
    {
        let plan: Vec<(usize, Option<usize>, Option<u32>)> = if thorough {
            vec![(150_000, Some(1000), None), (250_000, None, Some(1)), (123_457, Some(10), Some(0)), (300_001, None, Some(2))]
        } else {
            vec![(150_000, Some(1000), None)]
        };
        for (j, (n, hint, lb)) in plan.into_iter().enumerate() {
            let c = if j % 2 == 0 { default_func } else { fs_func };
            let mut s = base_spec(&c, n);
            s.off = true;
            s.hint = hint;
            s.lb = lb;
            s.vs = Vs::Rnd(77 + j as u64);
            s.seed = 300 + j as u64;
            ctx.stat("offline_fewer_buckets_than_shards");
            run_case(ctx, &s, &o);
        }
    }
    for (n, c) in bigs {
        let mut s = random_spec(ctx, &c, n);
        s.hint = match ctx.rng.below(3) {
            0 => None,
            1 => Some(n),
            _ => Some(n / 400),
        };
        s.eps = None;
        run_case(ctx, &s, &o);
    }
}

fn random_spec(ctx: &mut Ctx, c: &Combo, n: usize) -> Spec {
    let mut s = base_spec(c, n);
    let wb = wbits_of(c.3);
    let r = ctx.rng.next_u64();
    s.vs = vs_of(ctx.rng.usize_below(6), r, wb);
    s.ks = if c.2 == "u8" {
        Ks::Perm(r)
    } else if ctx.rng.bool() {
        Ks::Rnd(r ^ 0x55)
    } else {
        Ks::Seq(ctx.rng.below(1 << 20))
    };
    if c.0 == "filter" && c.4 == "bfv" {
        s.fb = Some(1 + ctx.rng.usize_below(wb));
    }
    s.off = ctx.rng.chance(1, 4);
    s.lm = *ctx.rng.pick(&[None, None, Some(false), Some(true)]);
    s.th = *ctx.rng.pick(&[1usize, 2, 8]);
    s.eps = ctx
        .rng
        .pick(&[None, None, Some("0.01"), Some("0.1"), Some("0.0005")])
        .map(|x| x.to_string());
    s.lb = *ctx.rng.pick(&[None, None, Some(0u32), Some(2), Some(5), Some(8)]);
    s.seed = ctx.rng.next_u64();
    s.hint = match ctx.rng.below(8) {
        0 => Some(n),
        1 => Some(n / 400),
        2 => Some(Ord::min(400 * n, 20_000_000)),
        3 => Some(*ctx.rng.pick(&[49_999usize, 50_000, 100_000, 100_001, 200_000, 800_001])),
        _ => None,
    };
    s.dups = ctx.rng.chance(1, 6);
    if s.off && s.lb.is_none() && s.hint.is_none() {
        // every attempt of an offline build creates 2^log2_buckets temporary files, and builds
        // of 100 < n <= 300 keys need dozens of attempts: keep the default (256 files) rare
        s.lb = Some(3);
    }
    s
}
