//! sux-verif-harness: drives the real `sux` code with generated op sequences and writes
//! `ops.txt` (one op per line), `impl.txt` (one reply per line) and `meta.json` into `--out`.
//! The same `ops.txt` is then fed to the Lean driver `suxdrv <runner>` and the replies diffed.
mod common;
mod run_atomic;
mod run_bfv;
mod run_bitvec;
mod run_edge;
mod run_ef;
mod run_func;
mod run_gf2;
mod run_lender;
mod run_misc;
mod run_ranksel;
mod run_rcl;
mod run_serde;
mod run_sigstore;
mod run_space;

use common::*;
use std::path::PathBuf;

fn main() {
    let args: Vec<String> = std::env::args().collect();
    if args.len() < 2 {
        eprintln!("usage: sux-verif-harness <runner> --out DIR [--seed N] [--tier quick|thorough]");
        std::process::exit(2);
    }
    let runner = args[1].clone();
    let mut out = PathBuf::from("work/out");
    let mut seed: u64 = 1;
    let mut tier = Tier::Quick;
    let mut replay: Option<Vec<String>> = None;
    let mut i = 2;
    while i < args.len() {
        match args[i].as_str() {
            "--out" => {
                out = PathBuf::from(&args[i + 1]);
                i += 2;
            }
            "--seed" => {
                seed = args[i + 1].parse().unwrap();
                i += 2;
            }
            "--tier" => {
                tier = if args[i + 1] == "thorough" {
                    Tier::Thorough
                } else {
                    Tier::Quick
                };
                i += 2;
            }
            "--replay" => {
                replay = Some(
                    std::fs::read_to_string(&args[i + 1])
                        .unwrap()
                        .lines()
                        .filter(|l| !l.starts_with('#') && !l.trim().is_empty())
                        .map(|l| l.to_string())
                        .collect(),
                );
                i += 2;
            }
            x => {
                eprintln!("unknown argument {}", x);
                std::process::exit(2);
            }
        }
    }
    // unwinding panics of the code under test are expected outcomes: keep stderr quiet
    std::panic::set_hook(Box::new(|_| {}));
    let mut ctx = Ctx::new(&out, seed, tier);
    match (runner.as_str(), &replay) {
        ("bitvec", None) => run_bitvec::run(&mut ctx),
        ("bitvec", Some(l)) => run_bitvec::replay(&mut ctx, l),
        ("ranksel", None) => run_ranksel::run(&mut ctx),
        ("ranksel", Some(l)) => run_ranksel::replay(&mut ctx, l),
        ("lender", None) => run_lender::run(&mut ctx),
        ("lender", Some(l)) => run_lender::replay(&mut ctx, l),
        ("sigstore", None) => run_sigstore::run(&mut ctx),
        ("sigstore", Some(l)) => run_sigstore::replay(&mut ctx, l),
        ("rcl", None) => run_rcl::run(&mut ctx),
        ("rcl", Some(l)) => run_rcl::replay(&mut ctx, l),
        ("gf2", None) => run_gf2::run(&mut ctx),
        ("gf2", Some(l)) => run_gf2::replay(&mut ctx, l),
        ("ef", None) => run_ef::run(&mut ctx),
        ("ef", Some(l)) => run_ef::replay(&mut ctx, l),
        ("edge", None) => run_edge::run(&mut ctx),
        ("edge", Some(l)) => run_edge::replay(&mut ctx, l),
        ("space", None) => run_space::run(&mut ctx),
        ("space", Some(l)) => run_space::replay(&mut ctx, l),
        ("atomic", None) => run_atomic::run(&mut ctx),
        ("atomic", Some(l)) => run_atomic::replay(&mut ctx, l),
        ("func", None) => run_func::run(&mut ctx),
        ("func", Some(l)) => run_func::replay(&mut ctx, l),
        ("serde", None) => run_serde::run(&mut ctx),
        ("serde", Some(l)) => run_serde::replay(&mut ctx, l),
        ("misc", None) => run_misc::run(&mut ctx),
        ("misc", Some(l)) => run_misc::replay(&mut ctx, l),
        ("bfv", None) => run_bfv::run(&mut ctx),
        ("bfv", Some(l)) => run_bfv::replay(&mut ctx, l),
        (r, _) => {
            eprintln!("unknown runner {}", r);
            std::process::exit(2);
        }
    }
    ctx.finish();
}
