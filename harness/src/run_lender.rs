//! Runner `lender`: consume/rewind histories on the rewindable I/O lenders of
//! `sux::utils::lenders` (C20; the lender laws C17/C07 rely on).
//!
//! Protocol (one lender per case; bytes as lower-case hex, `-` = empty):
//!
//! ```text
//! src lines <mem|file> <hex>                       LineLender over Cursor<Vec<u8>> / a temp file
//! src gzip|zstd <mem|file> <plainhex> <comphex>    Gzip/ZstdLineLender over <comphex>
//! src iter [a,b,c]                                 FromIntoIterator::from(vec![a,b,c])
//! src take_lines <n> <mem|file> <hex>              the same lenders under `.take(n)`
//! src take_gzip|take_zstd <n> <mem|file> <plainhex> <comphex>
//! src take_iter <n> [a,b,c]
//! src iterx <vec|deque|boxed|btree|range|repeat> [a,b,c]   FromIntoIterator over another clonable
//!                                                  IntoIterator holding exactly these items
//! src take_iterx <n> <kind> [a,b,c]
//! backing `path` / `fd` (besides mem, file): the convenience constructors `from_path(path)` /
//! `from_file(File)` of the three line lenders (`file` = `LineLender::from_path`, `*::new(File)`)
//! next <k>       k calls of next()                 -> ok <e1> .. <ek>
//! all            next() until the first None       -> ok <e1> .. <en> end
//! rewind         rewind() of a non-Take lender     -> ok | err <msg>
//! take_rewind    rewind() of a Take                -> ok <upper bound of size_hint()>
//! ```
//! entries: `s:<hex>` = Some(Ok(line)), `e` = Some(Err(_)), `n:<v>` = Some(Ok(&v)), `end` = None.
//!
//! `<plainhex>` is the text that was compressed into `<comphex>` (for a multi-member gzip file:
//! the text of the first member, which is all `flate2::read::GzDecoder` decodes); the Lean model
//! takes the pair as its decoder parameter, the real lender only ever sees `<comphex>`.
//!
//! Naive oracle = the property itself: the items are the pieces of the plain text between LFs
//! (a CR before the LF dropped, a non-empty tail after the last LF kept as it is), a pass yields
//! the first `min(n, #items)` of them, and `rewind` restarts the pass from the first item.
//! For `take_rewind` the reply carries the remaining count `h` of the `Take`; the oracle accepts
//! any `h` with `min(h, #items) = min(n, #items)` (the replay is complete) and otherwise expects
//! `ok <n> [take/rewind/consumed>0/replay-shorter]`: that is the known finding D18
//! (`lender::Take::into_parts` returns the remaining count), reported on the `take_rewind` line
//! itself (first occurrence of a case, at most `MAX_D18_REPORTS` per run; all are counted in the
//! stats `take_rewind:replay-shorter*`).  After it the oracle continues with `take(h)`.
use crate::common::*;
use lender::*;
use std::fs::File;
use std::io::{Cursor, Write};
use std::path::PathBuf;
use sux::utils::lenders::*;

// ------------------------------------------------------------------------------ hex

const HEX: &[u8; 16] = b"0123456789abcdef";

fn hex(bs: &[u8]) -> String {
    if bs.is_empty() {
        return String::new();
    }
    let mut s = Vec::with_capacity(bs.len() * 2);
    for &b in bs {
        s.push(HEX[(b >> 4) as usize]);
        s.push(HEX[(b & 15) as usize]);
    }
    String::from_utf8(s).unwrap()
}

fn hex_arg(bs: &[u8]) -> String {
    if bs.is_empty() {
        "-".into()
    } else {
        hex(bs)
    }
}

fn unhex(s: &str) -> Vec<u8> {
    if s == "-" {
        return vec![];
    }
    let v = |c: u8| -> u8 {
        match c {
            b'0'..=b'9' => c - b'0',
            b'a'..=b'f' => c - b'a' + 10,
            _ => panic!("bad hex"),
        }
    };
    s.as_bytes().chunks(2).map(|p| v(p[0]) * 16 + v(p[1])).collect()
}

fn parse_list(s: &str) -> Vec<u64> {
    let inner = &s[1..s.len() - 1];
    if inner.is_empty() {
        vec![]
    } else {
        inner.split(',').map(|x| x.parse().unwrap()).collect()
    }
}

// ------------------------------------------------------------------------------ real lenders

/// object-safe view of a `RewindableIoLender` (the trait itself consumes `self` in `rewind`)
trait DynL {
    fn next_entry(&mut self) -> String;
    fn rewind_dyn(self: Box<Self>) -> Result<Box<dyn DynL>, String>;
    fn upper(&self) -> Option<usize>;
}

struct StrL<L>(L);

impl<L: RewindableIoLender<str> + 'static> DynL for StrL<L> {
    fn next_entry(&mut self) -> String {
        match self.0.next() {
            None => "end".into(),
            Some(Ok(s)) => format!("s:{}", hex(s.as_bytes())),
            Some(Err(_)) => "e".into(),
        }
    }
    fn rewind_dyn(self: Box<Self>) -> Result<Box<dyn DynL>, String> {
        match self.0.rewind() {
            Ok(l) => Ok(Box::new(StrL(l))),
            Err(e) => Err(e.to_string()),
        }
    }
    fn upper(&self) -> Option<usize> {
        self.0.size_hint().1
    }
}

struct NumL<L>(L);

impl<L: RewindableIoLender<u64> + 'static> DynL for NumL<L> {
    fn next_entry(&mut self) -> String {
        match self.0.next() {
            None => "end".into(),
            Some(Ok(v)) => format!("n:{}", v),
            Some(Err(_)) => "e".into(),
        }
    }
    fn rewind_dyn(self: Box<Self>) -> Result<Box<dyn DynL>, String> {
        match self.0.rewind() {
            Ok(l) => Ok(Box::new(NumL(l))),
            Err(e) => Err(e.to_string()),
        }
    }
    fn upper(&self) -> Option<usize> {
        self.0.size_hint().1
    }
}

/// temp files live under the harness's own `target/tmp`
fn tmp_dir(ctx: &Ctx) -> PathBuf {
    let mut d = None;
    if let Ok(exe) = std::env::current_exe() {
        for a in exe.ancestors() {
            if a.file_name().map(|n| n == "target").unwrap_or(false) {
                d = Some(a.join("tmp"));
                break;
            }
        }
    }
    let d = d.unwrap_or_else(|| ctx.out_dir.join("tmp"));
    std::fs::create_dir_all(&d).unwrap();
    d
}

fn temp_with(ctx: &Ctx, bytes: &[u8]) -> tempfile::NamedTempFile {
    let mut f = tempfile::Builder::new()
        .prefix("lender-")
        .tempfile_in(tmp_dir(ctx))
        .unwrap();
    f.write_all(bytes).unwrap();
    f.flush().unwrap();
    f
}

struct S {
    l: Option<Box<dyn DynL>>,
    /// keeps the backing file alive (deleted on drop)
    _file: Option<tempfile::NamedTempFile>,
    // ---- oracle
    items: Vec<String>,
    limit: Option<usize>,
    p: usize,
    /// number of shorter replays (D18) seen in this case
    d18: u64,
}

const MAX_D18_REPORTS: u64 = 20;

fn fresh() -> S {
    S {
        l: None,
        _file: None,
        items: vec![],
        limit: None,
        p: 0,
        d18: 0,
    }
}

/// the items of a text, straight from the statement of C20
fn oracle_lines(plain: &[u8]) -> Vec<String> {
    let mut pieces: Vec<&[u8]> = plain.split(|&b| b == b'\n').collect();
    let tail = pieces.pop().unwrap();
    let mut out = vec![];
    for p in pieces {
        if std::str::from_utf8(p).is_err() {
            out.push("e".to_string());
        } else {
            let q = if p.last() == Some(&b'\r') { &p[..p.len() - 1] } else { p };
            out.push(format!("s:{}", hex(q)));
        }
    }
    if !tail.is_empty() {
        if std::str::from_utf8(tail).is_err() {
            out.push("e".to_string());
        } else {
            out.push(format!("s:{}", hex(tail)));
        }
    }
    out
}

fn build(ctx: &Ctx, t: &[&str]) -> Result<S, String> {
    let mut s = fresh();
    let (kind, take, rest): (&str, Option<usize>, &[&str]) = match t[1].strip_prefix("take_") {
        Some(k) => (k, Some(t[2].parse().unwrap()), &t[3..]),
        None => (t[1], None, &t[2..]),
    };
    s.limit = take;
    macro_rules! wrap {
        ($w:ident, $l:expr) => {{
            let l = $l;
            match take {
                Some(n) => Box::new($w(l.take(n))) as Box<dyn DynL>,
                None => Box::new($w(l)) as Box<dyn DynL>,
            }
        }};
    }
    let io = |e: std::io::Error| e.to_string();
    match kind {
        "iter" => {
            let v = parse_list(rest[0]);
            s.items = v.iter().map(|x| format!("n:{}", x)).collect();
            s.l = Some(wrap!(NumL, FromIntoIterator::from(v)));
        }
        "iterx" => {
            let v = parse_list(rest[1]);
            s.items = v.iter().map(|x| format!("n:{}", x)).collect();
            s.l = Some(match rest[0] {
                "vec" => wrap!(NumL, FromIntoIterator::from(v)),
                "deque" => wrap!(NumL, FromIntoIterator::from(v.into_iter().collect::<std::collections::VecDeque<u64>>())),
                "boxed" => wrap!(NumL, FromIntoIterator::from(v.into_boxed_slice())),
                "btree" => {
                    let set: std::collections::BTreeSet<u64> = v.iter().copied().collect();
                    assert!(set.iter().copied().eq(v.iter().copied()), "iterx btree: items must be strictly increasing");
                    wrap!(NumL, FromIntoIterator::from(set))
                }
                "range" => {
                    let a = v.first().copied().unwrap_or(5);
                    assert!(v.iter().enumerate().all(|(i, &x)| x == a + i as u64), "iterx range: items must be consecutive");
                    wrap!(NumL, FromIntoIterator::from(a..a + v.len() as u64))
                }
                "repeat" => {
                    let a = v.first().copied().unwrap_or(0);
                    assert!(v.iter().all(|&x| x == a), "iterx repeat: items must be equal");
                    wrap!(NumL, FromIntoIterator::from(std::iter::repeat(a).take(v.len())))
                }
                k => panic!("unknown iterx kind {}", k),
            });
        }
        "lines" => {
            let bytes = unhex(rest[1]);
            s.items = oracle_lines(&bytes);
            match rest[0] {
                "mem" => s.l = Some(wrap!(StrL, LineLender::new(Cursor::new(bytes)))),
                "fd" => {
                    let f = temp_with(ctx, &bytes);
                    let file = File::open(f.path()).map_err(io)?;
                    s.l = Some(wrap!(StrL, LineLender::from_file(file)));
                    s._file = Some(f);
                }
                _ => {
                    let f = temp_with(ctx, &bytes);
                    s.l = Some(wrap!(StrL, LineLender::from_path(f.path()).map_err(io)?));
                    s._file = Some(f);
                }
            }
        }
        "gzip" | "zstd" => {
            let plain = unhex(rest[1]);
            let comp = unhex(rest[2]);
            s.items = oracle_lines(&plain);
            match (kind, rest[0]) {
                ("gzip", "mem") => {
                    s.l = Some(wrap!(StrL, GzipLineLender::new(Cursor::new(comp)).map_err(io)?))
                }
                ("zstd", "mem") => {
                    s.l = Some(wrap!(StrL, ZstdLineLender::new(Cursor::new(comp)).map_err(io)?))
                }
                ("gzip", "path") => {
                    let f = temp_with(ctx, &comp);
                    // the impl block is on `GzipLineLender<BufReader<GzDecoder<BufReader<File>>>>`;
                    // the result is a `GzipLineLender<File>`
                    let l: GzipLineLender<File> = GzipLineLender::from_path(f.path()).map_err(io)?;
                    s.l = Some(wrap!(StrL, l));
                    s._file = Some(f);
                }
                ("gzip", "fd") => {
                    let f = temp_with(ctx, &comp);
                    let file = File::open(f.path()).map_err(io)?;
                    let l: GzipLineLender<File> = GzipLineLender::from_file(file).map_err(io)?;
                    s.l = Some(wrap!(StrL, l));
                    s._file = Some(f);
                }
                ("zstd", "path") => {
                    let f = temp_with(ctx, &comp);
                    let l: ZstdLineLender<File> = ZstdLineLender::from_path(f.path()).map_err(io)?;
                    s.l = Some(wrap!(StrL, l));
                    s._file = Some(f);
                }
                ("zstd", "fd") => {
                    let f = temp_with(ctx, &comp);
                    let file = File::open(f.path()).map_err(io)?;
                    let l: ZstdLineLender<File> = ZstdLineLender::from_file(file).map_err(io)?;
                    s.l = Some(wrap!(StrL, l));
                    s._file = Some(f);
                }
                ("gzip", _) => {
                    let f = temp_with(ctx, &comp);
                    let file = File::open(f.path()).map_err(io)?;
                    s.l = Some(wrap!(StrL, GzipLineLender::new(file).map_err(io)?));
                    s._file = Some(f);
                }
                _ => {
                    let f = temp_with(ctx, &comp);
                    let file = File::open(f.path()).map_err(io)?;
                    s.l = Some(wrap!(StrL, ZstdLineLender::new(file).map_err(io)?));
                    s._file = Some(f);
                }
            }
        }
        k => panic!("unknown source kind {}", k),
    }
    Ok(s)
}

impl S {
    fn eff(&self) -> usize {
        match self.limit {
            Some(n) => n.min(self.items.len()),
            None => self.items.len(),
        }
    }
    fn oracle_next(&mut self) -> String {
        if self.p < self.eff() {
            self.p += 1;
            self.items[self.p - 1].clone()
        } else {
            "end".into()
        }
    }
}

/// execute one op on the implementation and the oracle, emit op + reply
fn exec(ctx: &mut Ctx, s: &mut S, op: &str) {
    ctx.op(op);
    let t: Vec<&str> = op.split(' ').collect();
    if t[0] == "src" {
        match catch(|| build(&*ctx, &t)) {
            Some(Ok(n)) => {
                *s = n;
                ctx.reply("ok");
            }
            Some(Err(e)) => {
                *s = fresh();
                ctx.reply(&format!("err {}", e));
                ctx.check_oracle("ok", "err");
            }
            None => {
                *s = fresh();
                ctx.reply("panic");
                ctx.check_oracle("ok", "panic");
            }
        }
        return;
    }
    if s.l.is_none() {
        ctx.reply("nosrc");
        return;
    }
    match t[0] {
        "next" | "all" => {
            let k: Option<usize> = if t[0] == "next" { Some(t[1].parse().unwrap()) } else { None };
            let l = s.l.as_mut().unwrap();
            let got = catch(|| {
                let mut es = vec!["ok".to_string()];
                match k {
                    Some(k) => {
                        for _ in 0..k {
                            es.push(l.next_entry());
                        }
                    }
                    None => loop {
                        let e = l.next_entry();
                        let end = e == "end";
                        es.push(e);
                        if end {
                            break;
                        }
                    },
                }
                es.join(" ")
            })
            .unwrap_or_else(|| "panic".to_string());
            let mut es = vec!["ok".to_string()];
            match k {
                Some(k) => {
                    for _ in 0..k {
                        es.push(s.oracle_next());
                    }
                }
                None => loop {
                    let e = s.oracle_next();
                    let end = e == "end";
                    es.push(e);
                    if end {
                        break;
                    }
                },
            }
            let exp = es.join(" ");
            ctx.reply(&got);
            ctx.check_oracle(&exp, &got);
        }
        "rewind" | "take_rewind" => {
            let l = s.l.take().unwrap();
            let got = match catch(move || l.rewind_dyn()) {
                Some(Ok(l)) => {
                    let r = match l.upper() {
                        Some(h) => format!("ok {}", h),
                        None => "ok".to_string(),
                    };
                    s.l = Some(l);
                    r
                }
                Some(Err(e)) => format!("err {}", e),
                None => "panic".to_string(),
            };
            s.p = 0;
            let total = s.items.len();
            let h = got.strip_prefix("ok ").and_then(|h| h.parse::<usize>().ok());
            let exp = match (s.limit, h) {
                (None, _) => "ok".to_string(),
                (Some(n), Some(h)) if h.min(total) == n.min(total) => got.clone(),
                // the tag makes the record recognisable for KNOWN_FINDINGS.json (D18)
                (Some(n), Some(h)) if h < n => format!("ok {} [take/rewind/consumed>0/replay-shorter]", n),
                (Some(n), _) => format!("ok {}", n),
            };
            ctx.reply(&got);
            match (s.limit, h) {
                (Some(n), Some(h)) if exp != got && h < n => {
                    // known finding D18: the Take came back with the remaining count `h < n`, so
                    // the replay is shorter.  Every occurrence is counted, the first
                    // `MAX_D18_REPORTS` of a run are reported (the list in meta.json is bounded);
                    // then the oracle goes on with `take(h)` so that any *other* discrepancy
                    // later in the case is still seen.
                    ctx.stat("take_rewind:replay-shorter");
                    s.d18 += 1;
                    if s.d18 == 1 {
                        ctx.stat("take_rewind:replay-shorter-cases");
                    }
                    let reported = ctx.stats.get("take_rewind:reported").copied().unwrap_or(0);
                    if s.d18 == 1 && reported < MAX_D18_REPORTS {
                        ctx.stat("take_rewind:reported");
                        ctx.check_oracle(&exp, &got);
                    }
                    s.limit = Some(h);
                }
                _ => ctx.check_oracle(&exp, &got),
            }
        }
        x => panic!("unknown op {}", x),
    }
}

// ------------------------------------------------------------------------------ generators

fn gzip(data: &[u8], level: u32, flush_at: &[usize]) -> Vec<u8> {
    let mut e = flate2::write::GzEncoder::new(Vec::new(), flate2::Compression::new(level));
    let mut last = 0;
    for &f in flush_at {
        let f = f.min(data.len());
        if f > last {
            e.write_all(&data[last..f]).unwrap();
            e.flush().unwrap(); // sync flush: closes the current deflate block
            last = f;
        }
    }
    e.write_all(&data[last..]).unwrap();
    e.finish().unwrap()
}

fn zstd_frame(data: &[u8], level: i32, flush_at: &[usize]) -> Vec<u8> {
    let mut e = zstd::stream::write::Encoder::new(Vec::new(), level).unwrap();
    let mut last = 0;
    for &f in flush_at {
        let f = f.min(data.len());
        if f > last {
            e.write_all(&data[last..f]).unwrap();
            e.flush().unwrap(); // ends the current block
            last = f;
        }
    }
    e.write_all(&data[last..]).unwrap();
    e.finish().unwrap()
}

/// one line body (no LF inside) of roughly `len` bytes
fn gen_body(ctx: &mut Ctx, len: usize, flavour: u64) -> Vec<u8> {
    let mut v = Vec::with_capacity(len + 4);
    match flavour {
        // plain ASCII words
        0 => {
            while v.len() < len {
                v.push(b'a' + ctx.rng.below(26) as u8);
            }
        }
        // ASCII with blanks, tabs and lone CRs inside the line
        1 => {
            while v.len() < len {
                v.push(*ctx.rng.pick(&[b' ', b'\t', b'\r', b'x', b'0', b'~', b'\r', 0u8, 0x7f]));
            }
        }
        // valid multi-byte UTF-8 (2, 3 and 4 byte sequences, boundary code points)
        2 => {
            let cs = [
                "\u{e9}", "\u{80}", "\u{7ff}", "\u{800}", "\u{20ac}", "\u{d7ff}", "\u{e000}",
                "\u{ffff}", "\u{10000}", "\u{1f600}", "\u{10ffff}", "z",
            ];
            while v.len() < len {
                v.extend_from_slice(ctx.rng.pick(&cs).as_bytes());
            }
        }
        // one repeated byte (compresses to almost nothing)
        _ => {
            let b = b'A' + ctx.rng.below(3) as u8;
            v.resize(len, b);
        }
    }
    v
}

/// ill-formed UTF-8 fragments (each rejected by `str::from_utf8`)
const BAD_UTF8: &[&[u8]] = &[
    &[0x80],
    &[0xbf],
    &[0xc0, 0x80],
    &[0xc1, 0xbf],
    &[0xc2],
    &[0xc2, 0x41],
    &[0xe0, 0x9f, 0x80],
    &[0xe0, 0xa0],
    &[0xe1, 0x80],
    &[0xe1, 0x80, 0x41],
    &[0xed, 0xa0, 0x80],
    &[0xef, 0xbf],
    &[0xf0, 0x8f, 0x80, 0x80],
    &[0xf0, 0x90, 0x80],
    &[0xf1, 0x80, 0x80, 0x41],
    &[0xf4, 0x90, 0x80, 0x80],
    &[0xf5, 0x80, 0x80, 0x80],
    &[0xff],
    &[0xfe],
];

struct Text {
    bytes: Vec<u8>,
    class: String,
}

/// `cap`: 0 = lines up to 200 bytes, 1 = up to BufReader's buffer size, 2 = any length
fn gen_len(ctx: &mut Ctx, cap: u32) -> usize {
    // thorough: one long line in 16 goes up to 1 MiB
    let big = if ctx.tier == Tier::Thorough && ctx.rng.chance(1, 16) { 1 << 20 } else { 70_000 };
    match ctx.rng.below([74, 77, 80][cap as usize]) {
        0..=11 => 0,
        12..=19 => 1,
        20..=51 => 1 + ctx.rng.usize_below(12),
        52..=67 => 1 + ctx.rng.usize_below(200),
        68..=73 => 127 + ctx.rng.usize_below(3), // String::with_capacity(128)
        74..=76 => 8190 + ctx.rng.usize_below(5), // BufReader's 8 KiB buffer
        77 => 65_534 + ctx.rng.usize_below(5), // 64 KiB
        _ => 8193 + ctx.rng.usize_below(big),
    }
}

fn gen_text(ctx: &mut Ctx) -> Text {
    let shape = ctx.rng.below(20);
    let nlines = match shape {
        0 => 0,
        1..=3 => 1,
        4..=6 => 2,
        7..=15 => 3 + ctx.rng.usize_below(8),
        16..=18 => 10 + ctx.rng.usize_below(60),
        _ => 100 + ctx.rng.usize_below(if ctx.tier == Tier::Thorough { 1500 } else { 600 }),
    };
    let mut bytes = vec![];
    let mut longs = 0;
    let mut has_bad = false;
    let mut has_crlf = false;
    let bad_text = ctx.rng.chance(1, 12);
    // thorough runs ten times the cases: keep the share of very long lines (and the size of
    // ops.txt) in proportion
    let long_text = ctx.tier == Tier::Quick || ctx.rng.chance(1, 3);
    for i in 0..nlines {
        // (the model re-walks the file for every line: long files have few lines)
        let cap = if nlines > 60 { 0 } else if long_text && longs < 2 && nlines <= 12 { 2 } else { 1 };
        let len = gen_len(ctx, cap);
        if len > 8000 {
            longs += 1;
        }
        let fl = ctx.rng.below(4);
        let mut body = gen_body(ctx, len, fl);
        if bad_text && ctx.rng.chance(1, 3) {
            let frag = *ctx.rng.pick(BAD_UTF8);
            match ctx.rng.below(3) {
                0 => body.extend_from_slice(frag),
                1 => {
                    let mut b = frag.to_vec();
                    b.extend_from_slice(&body);
                    body = b;
                }
                _ => {
                    // in the middle, at a character boundary only if the body is ASCII
                    let body_ascii = body.is_ascii();
                    let at = if body_ascii { ctx.rng.usize_below(body.len() + 1) } else { 0 };
                    let mut b = body[..at].to_vec();
                    b.extend_from_slice(frag);
                    b.extend_from_slice(&body[at..]);
                    body = b;
                }
            }
            has_bad = true;
        }
        bytes.extend_from_slice(&body);
        let last = i + 1 == nlines;
        match ctx.rng.below(if last { 10 } else { 6 }) {
            0..=2 => bytes.push(b'\n'),
            3..=4 => {
                bytes.extend_from_slice(b"\r\n");
                has_crlf = true;
            }
            5 => bytes.extend_from_slice(b"\r\r\n"),
            6 => bytes.push(b'\r'), // file ends in a lone CR, no LF
            _ => {}                 // no final newline
        }
    }
    let class = format!(
        "l{}{}{}{}{}",
        match nlines {
            0 => "0",
            1 => "1",
            2 => "2",
            3..=12 => "few",
            13..=99 => "mid",
            _ => "many",
        },
        if bytes.last() == Some(&b'\n') || bytes.is_empty() { "" } else { ":noeol" },
        if has_crlf { ":crlf" } else { "" },
        if longs > 0 { ":long" } else { "" },
        if has_bad { ":badutf8" } else { "" }
    );
    Text { bytes, class }
}

/// compress `plain`; returns (what the decoder yields from offset 0, compressed bytes, class)
fn compress(ctx: &mut Ctx, kind: &str, plain: &[u8]) -> (Vec<u8>, Vec<u8>, &'static str) {
    let n = plain.len();
    let thorough = ctx.tier == Tier::Thorough;
    let multi = n > 0 && ctx.rng.chance(if thorough { 2 } else { 1 }, 6);
    let flushes: Vec<usize> = if n > 1 && ctx.rng.chance(1, 3) {
        let k = 1 + ctx.rng.usize_below(4);
        let mut f: Vec<usize> = (0..k).map(|_| ctx.rng.usize_below(n)).collect();
        f.sort();
        f
    } else {
        vec![]
    };
    if kind == "gzip" {
        let level = *ctx.rng.pick(&[0u32, 1, 6, 9]);
        if multi {
            // two members: `GzDecoder` (single member) stops after the first one
            let cut = ctx.rng.usize_below(n + 1);
            let mut c = gzip(&plain[..cut], level, &flushes);
            c.extend_from_slice(&gzip(&plain[cut..], level, &[]));
            (plain[..cut].to_vec(), c, "members")
        } else {
            (plain.to_vec(), gzip(plain, level, &flushes), if flushes.is_empty() { "one" } else { "blocks" })
        }
    } else {
        let level = *ctx.rng.pick(&[1i32, 3, 19, -5]);
        if multi {
            // two frames: the zstd decoder goes on with the next frame
            let cut = ctx.rng.usize_below(n + 1);
            let mut c = zstd_frame(&plain[..cut], level, &flushes);
            c.extend_from_slice(&zstd_frame(&plain[cut..], level, &[]));
            (plain.to_vec(), c, "frames")
        } else {
            (plain.to_vec(), zstd_frame(plain, level, &flushes), if flushes.is_empty() { "one" } else { "blocks" })
        }
    }
}

fn fmt_u64s(v: &[u64]) -> String {
    fmt_list(v.iter())
}

/// `src …` line for kind ∈ {lines, gzip, zstd, iter}; returns (line, number of items, class)
fn gen_src(ctx: &mut Ctx, kind: &str, take: Option<u64>, text: Option<Text>) -> (String, usize, String) {
    let tk = match take {
        Some(n) => format!("take_{} {}", kind, n),
        None => kind.to_string(),
    };
    if kind == "iter" {
        let n = match ctx.rng.below(10) {
            0 => 0,
            1 => 1,
            2..=7 => 2 + ctx.rng.usize_below(10),
            _ => 20 + ctx.rng.usize_below(300),
        };
        let v: Vec<u64> = (0..n).map(|_| ctx.rng.word()).collect();
        // FromIntoIterator over other clonable IntoIterators holding the same kind of items
        if ctx.rng.chance(1, 2) {
            let kind = *ctx.rng.pick(&["vec", "deque", "boxed", "btree", "range", "repeat"]);
            let base = ctx.rng.word() >> 1;
            let v: Vec<u64> = match kind {
                "btree" => {
                    let mut w = v.clone();
                    w.sort();
                    w.dedup();
                    w
                }
                "range" => (0..n as u64).map(|i| base + i).collect(),
                "repeat" => vec![base; n],
                _ => v,
            };
            let tkx = match take {
                Some(t) => format!("take_iterx {}", t),
                None => "iterx".to_string(),
            };
            let n = v.len();
            return (format!("src {} {} {}", tkx, kind, fmt_u64s(&v)), n, format!("x{}:n{}", kind, n.min(3)));
        }
        return (format!("src {} {}", tk, fmt_u64s(&v)), n, format!("n{}", n.min(3)));
    }
    let text = text.unwrap_or_else(|| gen_text(ctx));
    let backing = match ctx.rng.below(8) {
        0 => "file",
        1 => "path",
        2 => "fd",
        _ => "mem",
    };
    if kind == "lines" {
        let n = oracle_lines(&text.bytes).len();
        (
            format!("src {} {} {}", tk, backing, hex_arg(&text.bytes)),
            n,
            format!("{}:{}", backing, text.class),
        )
    } else {
        let (plain, comp, cc) = compress(ctx, kind, &text.bytes);
        let n = oracle_lines(&plain).len();
        (
            format!("src {} {} {} {}", tk, backing, hex_arg(&plain), hex_arg(&comp)),
            n,
            format!("{}:{}:{}", backing, text.class, cc),
        )
    }
}

fn gen_take(ctx: &mut Ctx, total_guess: usize) -> u64 {
    let t = total_guess as u64;
    match ctx.rng.below(10) {
        0 => 0,
        1 => 1,
        2 => t.saturating_sub(1),
        3..=4 => t,
        5 => t + 1,
        6 => t + 1 + ctx.rng.below(8),
        7 => u64::MAX,
        _ => ctx.rng.below(t + 2),
    }
}

/// a consume/rewind history; `n` = number of items a pass can yield
fn gen_history(ctx: &mut Ctx, n: usize, is_take: bool, big: bool) -> Vec<String> {
    let rw = if is_take { "take_rewind" } else { "rewind" };
    let mut h = vec![];
    let nops = if big { 2 + ctx.rng.usize_below(3) } else { 3 + ctx.rng.usize_below(10) };
    for _ in 0..nops {
        let op = match ctx.rng.below(12) {
            0..=3 => rw.to_string(),
            4..=5 => "all".to_string(),
            6 => "next 0".to_string(),
            7 => "next 1".to_string(),
            8 => format!("next {}", n),
            9 => format!("next {}", n + 1),
            _ => format!("next {}", ctx.rng.usize_below(n + 3)),
        };
        h.push(op);
    }
    // always end on a rewind followed by a complete pass: that is the observable of C20
    h.push(rw.to_string());
    h.push("all".to_string());
    h
}

fn run_case(ctx: &mut Ctx, src: &str, hist: &[String]) {
    ctx.case();
    let mut s = fresh();
    exec(ctx, &mut s, src);
    for op in hist {
        exec(ctx, &mut s, op);
    }
}

/// hand-listed cases hitting every model branch, independent of the seed
fn directed(ctx: &mut Ctx) {
    let long: Vec<u8> = {
        // three lines: 70000 bytes with CRLF, 8192 bytes with LF, 65536 bytes without terminator
        let mut v = vec![b'q'; 70_000];
        v.extend_from_slice(b"\r\n");
        v.extend(std::iter::repeat("\u{20ac}".as_bytes()).take(2731).flatten()); // 8193 bytes
        v.push(b'\n');
        v.extend(vec![b'z'; 65_536]);
        v
    };
    // lines around powers of two up to 2 MiB (a reader that cuts, caps or re-buffers a line at some
    // round size must still deliver it whole): 2^20 - 1 bytes + CRLF, 2^20 + LF, 2^21 + 3 unterminated
    let very_long: Vec<u8> = {
        let mut v = b"head\n".to_vec();
        v.extend(vec![b'a'; (1 << 20) - 1]);
        v.extend_from_slice(b"\r\n");
        v.extend(vec![b'b'; 1 << 20]);
        v.push(b'\n');
        v.extend_from_slice(b"\nmid\n");
        v.extend(vec![b'c'; (1 << 21) + 3]);
        v
    };
    let mut texts: Vec<Vec<u8>> = vec![
        b"".to_vec(),
        b"\n".to_vec(),
        b"\r\n".to_vec(),
        b"\r".to_vec(),
        b"a".to_vec(),
        b"a\n".to_vec(),
        b"a\r\n".to_vec(),
        b"a\r".to_vec(),
        b"a\nb".to_vec(),
        b"a\r\nb\r".to_vec(),
        b"a\n\nb\n".to_vec(),
        b"\n\n\n".to_vec(),
        b"\r\n\r\n".to_vec(),
        b"a\r\r\nb\rc\n\rd\n".to_vec(),
        b"one\ntwo\r\nthree\n\nfive".to_vec(),
        "h\u{e9}llo\n\u{20ac}\r\n\u{1f600}\u{10ffff}\u{800}\u{7ff}\u{d7ff}\u{e000}\u{10000}\u{90000}\n\u{80}".as_bytes().to_vec(),
        long,
        very_long,
        // a byte-order mark is part of the first line, on the first pass and after every rewind
        "\u{feff}first\nsecond\r\nthird".as_bytes().to_vec(),
        "\u{feff}".as_bytes().to_vec(),
        "\u{feff}\n\u{feff}x\n".as_bytes().to_vec(),
    ];
    // every ill-formed fragment: as a whole LF-terminated line, before CRLF, and as unterminated tail
    for frag in BAD_UTF8 {
        let mut v = b"ok\n".to_vec();
        v.extend_from_slice(frag);
        v.extend_from_slice(b"\nmid\r\n");
        v.extend_from_slice(frag);
        v.extend_from_slice(b"\r\nx");
        v.extend_from_slice(frag);
        texts.push(v);
    }
    for (ti, text) in texts.iter().enumerate() {
        let n = oracle_lines(text).len();
        let big = text.len() > 10_000;
        let kinds: &[&str] =
            if big || ti % 3 == 0 || text.starts_with(&[0xEF, 0xBB, 0xBF]) { &["lines", "gzip", "zstd"] } else { &["lines"] };
        for kind in kinds {
            for backing in ["mem", "file", "path", "fd"] {
                let bom = text.starts_with(&[0xEF, 0xBB, 0xBF]);
                if backing != "mem" && !(big || bom || ti % 4 == 0) {
                    continue;
                }
                // `path` of a plain line lender is the constructor `file` already uses
                if backing == "path" && *kind == "lines" {
                    continue;
                }
                let tail = match *kind {
                    "lines" => hex_arg(text),
                    "gzip" => format!("{} {}", hex_arg(text), hex_arg(&gzip(text, 6, &[text.len() / 2]))),
                    _ => format!("{} {}", hex_arg(text), hex_arg(&zstd_frame(text, 3, &[text.len() / 2]))),
                };
                let src = format!("src {} {} {}", kind, backing, tail);
                // consumed prefix k ∈ {0, 1, all, all+1}, then rewind(s) and a full pass
                let hists: Vec<Vec<String>> = if big {
                    vec![vec![format!("next {}", n + 1), "rewind".into(), "next 1".into(), "rewind".into(), "rewind".into(), "all".into()]]
                } else {
                    vec![
                        vec!["all".into(), "rewind".into(), "all".into()],
                        vec!["next 0".into(), "rewind".into(), "all".into(), "next 1".into()],
                        vec!["next 1".into(), "rewind".into(), "rewind".into(), "all".into()],
                        vec![format!("next {}", n), "rewind".into(), "all".into(), "rewind".into(), "next 1".into(), "rewind".into(), "all".into()],
                        vec![format!("next {}", n + 1), "next 2".into(), "rewind".into(), format!("next {}", n + 2)],
                    ]
                };
                for (hi, h) in hists.iter().enumerate() {
                    if hi > 0 && *kind != "lines" && ti % 2 == 1 {
                        continue;
                    }
                    if (backing == "path" || backing == "fd") && hi % 2 == 1 {
                        continue;
                    }
                    run_case(ctx, &src, h);
                    ctx.shape(format!("directed:{}:{}:t{}:h{}", kind, backing, ti, hi));
                }
            }
        }
    }
    // multi-member gzip (only the first member is decoded) and multi-frame zstd (all frames)
    {
        let a = b"first\r\nsecond\n".to_vec();
        let b = b"third\nfourth".to_vec();
        let mut g = gzip(&a, 6, &[]);
        g.extend_from_slice(&gzip(&b, 6, &[]));
        let mut z = zstd_frame(&a, 3, &[]);
        z.extend_from_slice(&zstd_frame(&b, 3, &[]));
        let ab = [a.clone(), b.clone()].concat();
        for backing in ["mem", "file", "path", "fd"] {
            let h: Vec<String> = vec!["next 1".into(), "rewind".into(), "all".into(), "rewind".into(), "all".into()];
            run_case(ctx, &format!("src gzip {} {} {}", backing, hex_arg(&a), hex_arg(&g)), &h);
            ctx.shape(format!("directed:gzip:{}:members", backing));
            run_case(ctx, &format!("src zstd {} {} {}", backing, hex_arg(&ab), hex_arg(&z)), &h);
            ctx.shape(format!("directed:zstd:{}:frames", backing));
        }
    }
    // FromIntoIterator
    for v in [vec![], vec![7u64], vec![1, 2, 3, 4, 5], vec![u64::MAX, 0, u64::MAX]] {
        let n = v.len();
        let src = format!("src iter {}", fmt_u64s(&v));
        for k in [0, 1, n, n + 1] {
            let h: Vec<String> = vec![format!("next {}", k), "rewind".into(), "all".into(), "rewind".into(), "rewind".into(), "all".into(), "next 1".into()];
            run_case(ctx, &src, &h);
            ctx.shape(format!("directed:iter:n{}:k{}", n, k));
        }
    }
    // FromIntoIterator over other clonable IntoIterators: zero, partial and complete passes
    for (kind, v) in [
        ("deque", vec![9u64, 8, 7, 7]),
        ("boxed", vec![1, 2, 3]),
        ("btree", vec![0, 5, u64::MAX]),
        ("range", vec![10, 11, 12, 13, 14]),
        ("range", vec![]),
        ("repeat", vec![42, 42, 42]),
        ("repeat", vec![]),
        ("vec", vec![u64::MAX]),
    ] {
        let n = v.len();
        for k in [0, 1, n, n + 1] {
            let h: Vec<String> = vec![format!("next {}", k), "rewind".into(), "all".into(), "rewind".into(), "rewind".into(), "all".into(), "next 1".into()];
            run_case(ctx, &format!("src iterx {} {}", kind, fmt_u64s(&v)), &h);
            ctx.shape(format!("directed:iterx:{}:n{}:k{}", kind, n, k));
        }
        let h: Vec<String> = vec!["next 1".into(), "take_rewind".into(), "all".into(), "take_rewind".into(), "all".into()];
        run_case(ctx, &format!("src take_iterx 2 {} {}", kind, fmt_u64s(&v)), &h);
        ctx.shape(format!("directed:take_iterx:{}", kind));
    }
    // Take: every count around the number of items × every consumed prefix
    let five = b"a\nb\r\nc\nd\ne";
    for (kind, tail, n) in [
        ("iter", "[1,2,3,4,5]".to_string(), 5usize),
        ("lines", format!("mem {}", hex(five)), 5),
        ("lines", format!("file {}", hex(five)), 5),
        ("gzip", format!("mem {} {}", hex(five), hex(&gzip(five, 6, &[]))), 5),
        ("zstd", format!("file {} {}", hex(five), hex(&zstd_frame(five, 3, &[]))), 5),
        ("iter", "[]".to_string(), 0),
        ("lines", "mem -".to_string(), 0),
    ] {
        for take in [0u64, 1, 4, 5, 6, 7, 11, u64::MAX] {
            for k in [0usize, 1, 3, 5, 6] {
                if kind != "iter" && (take == 4 || take == 7) {
                    continue;
                }
                let src = format!("src take_{} {} {}", kind, take, tail);
                let cons = if k == 6 { "all".to_string() } else { format!("next {}", k) };
                let h: Vec<String> = vec![cons, "take_rewind".into(), "all".into(), "take_rewind".into(), "all".into()];
                run_case(ctx, &src, &h);
                ctx.shape(format!("directed:take_{}:n{}:t{}:k{}", kind, n, take.min(12), k));
            }
        }
        // rewinds only: a Take that was never polled replays
        let src = format!("src take_{} 3 {}", kind, tail);
        let h: Vec<String> = vec!["take_rewind".into(), "take_rewind".into(), "all".into()];
        run_case(ctx, &src, &h);
        ctx.shape(format!("directed:take_{}:unconsumed", kind));
    }
    // ops without a lender
    for op in ["next 1", "all", "rewind", "take_rewind", "next 0"] {
        ctx.case();
        let mut s = fresh();
        exec(ctx, &mut s, op);
        ctx.shape(format!("directed:nosrc:{}", op));
    }
}

fn random_case(ctx: &mut Ctx) {
    let kind = *ctx.rng.pick(&["lines", "lines", "lines", "gzip", "zstd", "iter"]);
    let is_take = ctx.rng.chance(1, 4);
    let text = if kind == "iter" { None } else { Some(gen_text(ctx)) };
    let big = text.as_ref().map(|t| t.bytes.len() > 20_000).unwrap_or(false);
    // the Take count is chosen around the number of lines of the text
    let guess = match &text {
        Some(t) => oracle_lines(&t.bytes).len(),
        None => 6,
    };
    let take = if is_take { Some(gen_take(ctx, guess)) } else { None };
    let (src, n, class) = gen_src(ctx, kind, take, text);
    let eff = match take {
        Some(t) => (t.min(n as u64)) as usize,
        None => n,
    };
    // ~4 % of the cases poll a lender that was never created (out-of-domain op)
    if ctx.rng.chance(1, 25) {
        ctx.case();
        let mut s = fresh();
        let op = ctx.rng.pick(&["next 1", "all", "rewind", "take_rewind"]).to_string();
        exec(ctx, &mut s, &op);
        exec(ctx, &mut s, &src);
        exec(ctx, &mut s, "all");
        ctx.shape(format!("nosrc-first:{}", kind));
        return;
    }
    let hist = gen_history(ctx, eff, is_take, big);
    let kinds: std::collections::BTreeSet<String> =
        hist.iter().map(|o| o.split(' ').next().unwrap().to_string()).collect();
    run_case(ctx, &src, &hist);
    ctx.stat(&format!("kind:{}{}", if is_take { "take_" } else { "" }, kind));
    let tclass = match take {
        None => "".to_string(),
        Some(t) if t == 0 => ":t0".to_string(),
        Some(t) if (t as u128) < n as u128 => ":t<n".to_string(),
        Some(t) if t as u128 == n as u128 => ":t=n".to_string(),
        Some(_) => ":t>n".to_string(),
    };
    ctx.shape(format!(
        "{}{}{}:{}:{}",
        if is_take { "take_" } else { "" },
        kind,
        tclass,
        class,
        kinds.into_iter().collect::<Vec<_>>().join(",")
    ));
}

pub fn run(ctx: &mut Ctx) {
    directed(ctx);
    let n = if ctx.tier == Tier::Quick { 700 } else { 7000 };
    for _ in 0..n {
        random_case(ctx);
    }
}

/// re-execute the ops of a replay file
pub fn replay(ctx: &mut Ctx, lines: &[String]) {
    let mut s = fresh();
    for l in lines {
        if l.starts_with("case ") {
            ctx.op(l);
            ctx.reply("case");
            s = fresh();
        } else {
            exec(ctx, &mut s, l);
        }
    }
}
