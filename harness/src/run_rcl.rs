//! Runner `rcl`: `RearCodedListBuilder` / `RearCodedList` (C09, C12).
//!
//! Protocol (see `SuxModel/RCL/Runner.lean`): byte strings as lower-case hex, `-` = empty.
//! `new k`, `push <hex>`, `extend [hex,..]` (builder `extend` from a lender of `&str`), `print_stats`
//! (finding B1: only generated while the redundancy statistic is >= 0), `build`, then observers
//! `parts len get get_in_place iter into_iter lend iter_from lend_from into_iter_from into_lender
//! index_of contains`, and `iter_proto j k` / `lend_proto j k` (`iter_from(j)` / `Lend::new`,
//! `Lend::new_from(j)`, then `nth(k)`, `len`, `count`; `last` of a second one).
//! The private fields `(k, len, is_sorted, data, pointers)` are read through the derived `Debug`.
//! Naive oracle: the `Vec<Vec<u8>>` of pushed strings; an independent (loop-style) re-encoder for
//! `parts`.  Op `vbyte <value> <tail hex>` drives the private `encode_int` / `encode_int_len` /
//! `decode_int` through the `#[cfg(sux_verif)]` hook `verif_vbyte`; only values below
//! `2^63 + UPPER_BOUND_8` are ever sent (from there on `encode_int_len` does not terminate, theorem
//! `encode_len_diverges`).  About 5 % of the probes of `index_of`/`contains` contain NUL bytes (sorted and
//! unsorted lists): such keys are never stored and must be reported absent.
use crate::common::*;
use lender::{ExactSizeLender, IntoLender, IteratorExt, Lender};
use sux::dict::rear_coded_list::{verif_vbyte, Lend};
use sux::dict::{RearCodedList, RearCodedListBuilder};
use sux::traits::{IndexedDict, IndexedSeq, IntoIteratorFrom};

struct S {
    builder: RearCodedListBuilder,
    k: usize,
    /// strings accepted by the builder so far
    pushed: Vec<Vec<u8>>,
    rcl: Option<RearCodedList>,
    /// oracle snapshot at `build`
    strs: Vec<Vec<u8>>,
    built_k: usize,
}

fn fresh() -> S {
    S {
        builder: RearCodedListBuilder::new(1),
        k: 1,
        pushed: vec![],
        rcl: None,
        strs: vec![],
        built_k: 1,
    }
}

fn hex(b: &[u8]) -> String {
    if b.is_empty() {
        return "-".into();
    }
    let mut s = String::with_capacity(b.len() * 2);
    for x in b {
        s.push(char::from_digit((x >> 4) as u32, 16).unwrap());
        s.push(char::from_digit((x & 15) as u32, 16).unwrap());
    }
    s
}

fn unhex(s: &str) -> Vec<u8> {
    if s == "-" {
        return vec![];
    }
    let c: Vec<u8> = s.bytes().collect();
    assert!(c.len() % 2 == 0, "odd hex string");
    c.chunks(2)
        .map(|p| {
            ((p[0] as char).to_digit(16).unwrap() * 16 + (p[1] as char).to_digit(16).unwrap()) as u8
        })
        .collect()
}

fn hex_list<'a>(xs: impl IntoIterator<Item = &'a [u8]>) -> String {
    let v: Vec<String> = xs.into_iter().map(hex).collect();
    format!("[{}]", v.join(","))
}

/// fields of the derived `Debug` output
/// `RearCodedList { k: 4, len: 6, is_sorted: true, data: [97, ..], pointers: [0, 14] }`
fn parts_of(rcl: &RearCodedList) -> (usize, usize, bool, Vec<u8>, Vec<usize>) {
    let d = format!("{:?}", rcl);
    let field = |name: &str| -> &str {
        let key = format!("{}: ", name);
        let st = d.find(&key).unwrap() + key.len();
        let rest = &d[st..];
        if rest.starts_with('[') {
            let e = rest.find(']').unwrap();
            &rest[1..e]
        } else {
            let e = rest.find(|c| c == ',' || c == ' ').unwrap();
            &rest[..e]
        }
    };
    let nums = |s: &str| -> Vec<usize> {
        s.split(", ")
            .filter(|x| !x.is_empty())
            .map(|x| x.parse().unwrap())
            .collect()
    };
    (
        field("k").parse().unwrap(),
        field("len").parse().unwrap(),
        field("is_sorted") == "true",
        nums(field("data")).into_iter().map(|x| x as u8).collect(),
        nums(field("pointers")),
    )
}

/// loop-style vbyte: `n` bytes cover `128 + 128^2 + .. + 128^n` values (n ≤ 8), else 0xFF + 8 bytes
/// `UPPER_BOUND_k` of the source, k = 0..=8 (`UB[0] = 0`)
fn upper_bounds() -> [u128; 9] {
    let mut ub = [0u128; 9];
    for k in 1..=8 {
        ub[k] = ub[k - 1] + 128u128.pow(k as u32);
    }
    ub
}

/// `2^63 + UPPER_BOUND_8`: first value on which `encode_int_len` loops forever
const VBYTE_LIMIT: u128 = (1u128 << 63) + 72624976668147840;

fn naive_vbyte(v: u64, out: &mut Vec<u8>) {
    let mut lo: u128 = 0;
    let mut span: u128 = 128;
    let mut n = 1usize;
    while n <= 8 && (v as u128) >= lo + span {
        lo += span;
        span *= 128;
        n += 1;
    }
    if n == 9 {
        out.push(0xFF);
        out.extend_from_slice(&v.to_be_bytes());
        return;
    }
    let bytes = ((v as u128 - lo) as u64).to_be_bytes();
    let prefix: u8 = !(0xFFu16 >> (n - 1)) as u8;
    let top = if n == 8 { 0 } else { bytes[8 - n] };
    out.push(prefix | top);
    out.extend_from_slice(&bytes[8 - (n - 1)..]);
}

fn naive_encode(k: usize, strs: &[Vec<u8>]) -> (Vec<u8>, Vec<usize>) {
    let mut data = vec![];
    let mut ptrs = vec![];
    for (i, s) in strs.iter().enumerate() {
        if i % k == 0 {
            ptrs.push(data.len());
            data.extend_from_slice(s);
        } else {
            let p = &strs[i - 1];
            let lcp = p.iter().zip(s.iter()).take_while(|(a, b)| a == b).count();
            naive_vbyte((p.len() - lcp) as u64, &mut data);
            data.extend_from_slice(&s[lcp..]);
        }
        data.push(0);
    }
    (data, ptrs)
}

/// `[61,-,6262]` -> byte strings
fn unhex_list(s: &str) -> Vec<Vec<u8>> {
    let inner = &s[1..s.len() - 1];
    if inner.is_empty() {
        vec![]
    } else {
        inner.split(',').map(unhex).collect()
    }
}

/// `stats.redundancy` of the builder, recomputed from the pushed strings: at every block start
/// but the first, `+ lcp(previous, current) - encode_int_len(previous.len() - lcp)`
fn naive_redundancy(k: usize, strs: &[Vec<u8>]) -> i128 {
    let mut r: i128 = 0;
    if k == 0 {
        return 0;
    }
    for i in 1..strs.len() {
        if i % k == 0 {
            let (p, c) = (&strs[i - 1], &strs[i]);
            let lcp = p.iter().zip(c.iter()).take_while(|(a, b)| a == b).count();
            let mut code = vec![];
            naive_vbyte((p.len() - lcp) as u64, &mut code);
            r += lcp as i128 - code.len() as i128;
        }
    }
    r
}

/// run `f` with the process's standard output pointing to /dev/null (`print_stats` writes ~20
/// lines with `println!`); plain libc calls, no extra crate.  Under Miri the call is made as is.
fn with_stdout_null<T>(f: impl FnOnce() -> T) -> T {
    #[cfg(all(unix, not(miri)))]
    {
        use std::io::Write;
        use std::os::fd::AsRawFd;
        extern "C" {
            fn dup(fd: i32) -> i32;
            fn dup2(a: i32, b: i32) -> i32;
            fn close(fd: i32) -> i32;
        }
        let _ = std::io::stdout().flush();
        let null = std::fs::OpenOptions::new().write(true).open("/dev/null");
        if let Ok(null) = null {
            unsafe {
                let saved = dup(1);
                if saved >= 0 {
                    dup2(null.as_raw_fd(), 1);
                    let r = f();
                    let _ = std::io::stdout().flush();
                    dup2(saved, 1);
                    close(saved);
                    return r;
                }
            }
        }
        f()
    }
    #[cfg(not(all(unix, not(miri))))]
    {
        f()
    }
}

fn fmt_oh(x: Option<Vec<u8>>) -> String {
    match x {
        Some(b) => hex(&b),
        None => "none".into(),
    }
}

fn fmt_drain(hints: &[usize], items: &[Vec<u8>]) -> String {
    format!(
        "ok {} {}",
        fmt_list(hints.iter()),
        hex_list(items.iter().map(|x| x.as_slice()))
    )
}

fn exec(ctx: &mut Ctx, s: &mut S, op: &str) {
    ctx.op(op);
    let t: Vec<&str> = op.split(' ').collect();
    let num = |i: usize| -> usize { t[i].parse::<usize>().unwrap() };
    let (res, ores): (Option<String>, String) = match t[0] {
        "new" => {
            let k = num(1);
            s.builder = RearCodedListBuilder::new(k);
            s.k = k;
            s.pushed.clear();
            s.rcl = None;
            (Some("ok".into()), "ok".into())
        }
        "push" => {
            let bytes = unhex(t[1]);
            let st = String::from_utf8(bytes.clone()).expect("push: op is not UTF-8");
            let r = catch(|| s.builder.push(&st));
            let o = if s.k == 0 {
                "panic".to_string()
            } else {
                s.pushed.push(bytes);
                "ok".into()
            };
            if r.is_some() && s.builder.len() != s.pushed.len() {
                ctx.check_oracle(
                    &format!("builder len {}", s.pushed.len()),
                    &format!("builder len {}", s.builder.len()),
                );
            }
            (r.map(|_| "ok".into()), o)
        }
        "extend" => {
            // `RearCodedListBuilder::extend` from a lender of `&str`
            let items = unhex_list(t[1]);
            let strs: Vec<String> = items
                .iter()
                .map(|b| String::from_utf8(b.clone()).expect("extend: op is not UTF-8"))
                .collect();
            let r = catch(|| s.builder.extend(strs.iter().map(|x| x.as_str()).into_lender()));
            let o = if s.k == 0 && !items.is_empty() {
                "panic".to_string()
            } else {
                s.pushed.extend(items);
                "ok".into()
            };
            if r.is_some() && s.builder.len() != s.pushed.len() {
                ctx.check_oracle(
                    &format!("builder len {}", s.pushed.len()),
                    &format!("builder len {}", s.builder.len()),
                );
            }
            (r.map(|_| "ok".into()), o)
        }
        "print_stats" => {
            // must not panic whatever has been pushed (the oracle's expectation).  FINDING B1:
            // it does whenever `stats.redundancy` is negative; the generators only emit the op
            // when `naive_redundancy >= 0`, the Lean model predicts the panic for a replay
            let r = catch(|| with_stdout_null(|| s.builder.print_stats()));
            (r.map(|_| "ok".into()), "ok".into())
        }
        "vbyte" => {
            let v: u64 = t[1].parse().unwrap();
            assert!(
                (v as u128) < VBYTE_LIMIT,
                "vbyte: encode_int_len does not terminate for this value"
            );
            let tail = unhex(t[2]);
            let r = catch(|| {
                let (code, len, dec, rest) = verif_vbyte(v as usize, &tail);
                format!("ok {} {} {} {}", hex(&code), len, dec, rest)
            });
            let mut ocode = vec![];
            naive_vbyte(v, &mut ocode);
            let o = format!("ok {} {} {} {}", hex(&ocode), ocode.len(), v, tail.len());
            (r, o)
        }
        "build" => {
            s.rcl = Some(s.builder.clone().build());
            s.strs = s.pushed.clone();
            s.built_k = s.k;
            (Some("ok".into()), "ok".into())
        }
        _ => {
            let rcl = s.rcl.as_ref().expect("observer before build");
            let strs = &s.strs;
            let n = strs.len();
            match t[0] {
                "parts" => {
                    let (k, len, sorted, data, ptrs) = parts_of(rcl);
                    let r = format!(
                        "ok {} {} {} {} {}",
                        k,
                        len,
                        b01(sorted),
                        hex(&data),
                        fmt_list(ptrs.iter())
                    );
                    let osorted = strs.windows(2).all(|w| w[0] <= w[1]);
                    let (odata, optrs) = if s.built_k == 0 {
                        (vec![], vec![])
                    } else {
                        naive_encode(s.built_k, strs)
                    };
                    let o = format!(
                        "ok {} {} {} {} {}",
                        s.built_k,
                        n,
                        b01(osorted),
                        hex(&odata),
                        fmt_list(optrs.iter())
                    );
                    (Some(r), o)
                }
                "len" => (
                    catch(|| format!("ok {}", rcl.len())),
                    format!("ok {}", n),
                ),
                "get" => {
                    let i = num(1);
                    let o = if i < n {
                        format!("ok {}", hex(&strs[i]))
                    } else {
                        "panic".into()
                    };
                    (
                        catch(|| format!("ok {}", hex(IndexedSeq::get(rcl, i).as_bytes()))),
                        o,
                    )
                }
                "get_in_place" => {
                    let i = num(1);
                    let r = catch(|| {
                        // a dirty buffer: the method has to clear it
                        let mut buf = vec![1u8, 2, 3];
                        rcl.get_in_place(i, &mut buf);
                        format!("ok {}", hex(&buf))
                    });
                    // out of range: not specified by the property; accept what the code does
                    let o = if i < n {
                        format!("ok {}", hex(&strs[i]))
                    } else {
                        r.clone().unwrap_or_else(|| "panic".into())
                    };
                    (r, o)
                }
                "iter_proto" | "lend_proto" => {
                    // iterator / lender protocol methods that a plain drain does not use: `nth(k)`,
                    // then `len()` (+ `size_hint()`), then `count()`; `last()` on a fresh one.
                    // `lend_proto` goes through the explicit constructors `Lend::{new, new_from}`.
                    let (j, k) = (num(1), num(2));
                    let r = catch(|| {
                        if t[0] == "iter_proto" {
                            let mut it = rcl.iter_from(j);
                            let a = it.nth(k).map(|x| x.into_bytes());
                            let l = ExactSizeIterator::len(&it);
                            let hint_ok = it.size_hint() == (l, Some(l));
                            let c = it.count();
                            let last = rcl.iter_from(j).last().map(|x| x.into_bytes());
                            (format!("ok {} {} {} {}", fmt_oh(a), l, c, fmt_oh(last)), hint_ok)
                        } else {
                            let mk = || if j == 0 { Lend::new(rcl) } else { Lend::new_from(rcl, j) };
                            let mut it = mk();
                            let a = it.nth(k).map(|x| x.as_bytes().to_vec());
                            let l = ExactSizeLender::len(&it);
                            let hint_ok = it.size_hint() == (l, Some(l));
                            let c = it.count();
                            let last = mk().last().map(|x| x.as_bytes().to_vec());
                            (format!("ok {} {} {} {}", fmt_oh(a), l, c, fmt_oh(last)), hint_ok)
                        }
                    });
                    if let Some((_, false)) = r {
                        ctx.check_oracle("size_hint = (len, Some(len))", "size_hint differs");
                    }
                    let rest = &strs[j.min(n)..];
                    let left = rest.len() - Ord::min(rest.len(), k.saturating_add(1));
                    let o = format!(
                        "ok {} {} {} {}",
                        fmt_oh(rest.get(k).cloned()),
                        left,
                        left,
                        fmt_oh(rest.last().cloned())
                    );
                    (r.map(|x| x.0), o)
                }
                "iter" | "into_iter" | "lend" | "iter_from" | "lend_from" | "into_iter_from" | "into_lender" => {
                    let j = if t.len() > 1 { num(1) } else { 0 };
                    let r = catch(|| {
                        let mut hints = vec![];
                        let mut items: Vec<Vec<u8>> = vec![];
                        let mut hint_ok = true;
                        match t[0] {
                            "iter" | "into_iter" | "iter_from" | "into_iter_from" => {
                                let mut it = match t[0] {
                                    "iter" => rcl.iter(),
                                    "into_iter" => IntoIterator::into_iter(rcl),
                                    "iter_from" => rcl.iter_from(j),
                                    _ => rcl.into_iter_from(j),
                                };
                                loop {
                                    let h = ExactSizeIterator::len(&it);
                                    hint_ok &= it.size_hint() == (h, Some(h));
                                    hints.push(h);
                                    match it.next() {
                                        Some(x) => items.push(x.into_bytes()),
                                        None => break,
                                    }
                                }
                            }
                            _ => {
                                let mut it = match t[0] {
                                    "lend" => rcl.lend(),
                                    "lend_from" => rcl.lend_from(j),
                                    _ => rcl.into_lender(),
                                };
                                loop {
                                    let h = ExactSizeLender::len(&it);
                                    hint_ok &= it.size_hint() == (h, Some(h));
                                    hints.push(h);
                                    match it.next() {
                                        Some(x) => items.push(x.as_bytes().to_vec()),
                                        None => break,
                                    }
                                }
                            }
                        }
                        (fmt_drain(&hints, &items), hint_ok)
                    });
                    if let Some((_, false)) = r {
                        ctx.check_oracle("size_hint = (len, Some(len))", "size_hint differs");
                    }
                    let from = j.min(n);
                    let ohints: Vec<usize> = (0..=n - from).rev().collect();
                    let o = fmt_drain(&ohints, &strs[from..]);
                    (r.map(|x| x.0), o)
                }
                "index_of" | "contains" => {
                    let key = unhex(t[1]);
                    let st = String::from_utf8(key.clone()).expect("probe: op is not UTF-8");
                    let first = strs.iter().position(|x| *x == key);
                    if t[0] == "contains" {
                        (
                            catch(|| format!("ok {}", b01(rcl.contains(st.as_str())))),
                            format!("ok {}", b01(first.is_some())),
                        )
                    } else {
                        let r = catch(|| rcl.index_of(st.as_str()));
                        let sorted = strs.windows(2).all(|w| w[0] <= w[1]);
                        // sorted input: any index holding the key; unsorted: the first one
                        let o = match (&r, first) {
                            (Some(Some(i)), Some(_)) if sorted && *i < n && strs[*i] == key => {
                                format!("ok {}", i)
                            }
                            (_, Some(f)) => format!("ok {}", f),
                            (_, None) => "ok none".into(),
                        };
                        (
                            r.map(|x| match x {
                                Some(i) => format!("ok {}", i),
                                None => "ok none".into(),
                            }),
                            o,
                        )
                    }
                }
                _ => panic!("unknown op {}", op),
            }
        }
    };
    let res = res.unwrap_or_else(|| "panic".to_string());
    ctx.check_oracle(&ores, &res);
    ctx.reply(&res);
}

// ------------------------------------------------------------------------------ generation

/// small alphabet: ASCII, 2-, 3-, 4-byte characters, the largest scalar (lead byte 0xF4),
/// U+0001 and U+007F (smallest / largest one-byte code units)
const ALPHA: &[char] = &[
    'a', 'b', 'c', 'a', 'b', 'é', 'ê', '€', '𝄞', '\u{10FFFF}', '\u{1}', '\u{7f}', '\u{80}',
    '\u{7ff}', '\u{800}', '\u{ffff}', '\u{10000}',
];

fn gen_char(ctx: &mut Ctx) -> char {
    if ctx.rng.chance(3, 5) {
        *ctx.rng.pick(&ALPHA[..5])
    } else {
        *ctx.rng.pick(ALPHA)
    }
}

fn gen_word(ctx: &mut Ctx, pool: &[String]) -> String {
    let mut s = String::new();
    if !pool.is_empty() && ctx.rng.chance(3, 4) {
        // share a prefix (any number of characters, possibly all) with an earlier string
        let p = ctx.rng.pick(pool).clone();
        let cs: Vec<char> = p.chars().collect();
        let cut = ctx.rng.usize_below(cs.len() + 1);
        s.extend(cs[..cut].iter());
        if ctx.rng.chance(1, 6) {
            return s; // proper prefix or duplicate
        }
        if cut == cs.len() && ctx.rng.chance(1, 4) {
            return s; // duplicate
        }
    }
    let extra = match ctx.rng.below(8) {
        0 => 0,
        1..=4 => 1 + ctx.rng.usize_below(3),
        5 | 6 => 1 + ctx.rng.usize_below(8),
        _ => 100 + ctx.rng.usize_below(60), // rear lengths around 128
    };
    for _ in 0..extra {
        s.push(gen_char(ctx));
    }
    s
}

fn gen_k(ctx: &mut Ctx, n: usize) -> usize {
    match ctx.rng.below(16) {
        0 | 1 => 1,
        2 | 3 => 2,
        4 => 3,
        5 | 6 => 4,
        7 => 7,
        8 => 64,
        9 | 10 => n.max(1),
        11 => n + 1,
        12 => n.saturating_sub(1).max(1),
        13 => 1 + ctx.rng.usize_below(10),
        14 => 5,
        _ => 8,
    }
}

fn gen_index(ctx: &mut Ctx, n: usize, k: usize) -> usize {
    match ctx.rng.below(16) {
        0 => n,
        1 => n + 1 + ctx.rng.usize_below(2 * k.max(1) + 2),
        2 => 0,
        3 => n.saturating_sub(1),
        4 if k > 0 => (n / k) * k,
        5 if k > 0 => ((n / k) * k).saturating_sub(1),
        6 => usize::MAX - ctx.rng.usize_below(2),
        _ => {
            if n == 0 {
                0
            } else {
                ctx.rng.usize_below(n)
            }
        }
    }
}

/// a probe string related to the stored strings
fn gen_probe(ctx: &mut Ctx, strs: &[String], k: usize) -> String {
    if strs.is_empty() {
        return if ctx.rng.bool() { String::new() } else { gen_word(ctx, &[]) };
    }
    let k = k.max(1);
    if ctx.rng.chance(1, 20) {
        // probes containing NUL (valid `&str`, never stored): a stored string, a NUL, then the
        // bytes that follow it in `data` / another stored string / nothing / garbage
        ctx.stat("probe:nul");
        let mut x = ctx.rng.pick(strs).clone();
        match ctx.rng.below(5) {
            0 => x.push('\0'),
            1 => {
                x.push('\0');
                let y: String = ctx.rng.pick(strs).clone();
                x.push_str(&y);
            }
            2 => {
                x.push_str("\0\0");
                x.push(gen_char(ctx));
            }
            3 => {
                x = String::from("\0");
            }
            _ => {
                // NUL in the middle of a stored string
                let cs: Vec<char> = x.chars().collect();
                let cut = ctx.rng.usize_below(cs.len() + 1);
                x = cs[..cut].iter().collect();
                x.push('\0');
                x.extend(cs[cut..].iter());
            }
        }
        return x;
    }
    let head = |ctx: &mut Ctx| -> String {
        let nb = strs.len().div_ceil(k);
        strs[ctx.rng.usize_below(nb) * k].clone()
    };
    match ctx.rng.below(12) {
        0 | 1 | 2 => ctx.rng.pick(strs).clone(),
        3 => String::new(),
        4 => {
            // proper prefix of a block head
            let h = head(ctx);
            let cs: Vec<char> = h.chars().collect();
            if cs.is_empty() {
                "a".into()
            } else {
                cs[..ctx.rng.usize_below(cs.len())].iter().collect()
            }
        }
        5 => {
            // extension of a block head
            let mut h = head(ctx);
            h.push(gen_char(ctx));
            h
        }
        6 => {
            // just after a stored string
            let mut x = ctx.rng.pick(strs).clone();
            x.push('\u{1}');
            x
        }
        7 => {
            // just before a stored string: last character decremented
            let x = ctx.rng.pick(strs).clone();
            let mut cs: Vec<char> = x.chars().collect();
            match cs.pop() {
                Some(c) if c as u32 > 1 => {
                    let d = char::from_u32(c as u32 - 1).unwrap_or('a');
                    cs.push(d);
                    cs.push('\u{10FFFF}');
                }
                _ => {}
            }
            cs.into_iter().collect()
        }
        8 => {
            // last character incremented
            let x = ctx.rng.pick(strs).clone();
            let mut cs: Vec<char> = x.chars().collect();
            if let Some(c) = cs.pop() {
                cs.push(char::from_u32(c as u32 + 1).unwrap_or('b'));
            }
            cs.into_iter().collect()
        }
        _ => gen_word(ctx, strs),
    }
}

fn is_sorted(v: &[String]) -> bool {
    v.windows(2).all(|w| w[0].as_bytes() <= w[1].as_bytes())
}

/// build a list and run the standard battery of observers on it
/// `print_stats` is only issued while the builder's redundancy statistic is non-negative
/// (finding B1: it panics otherwise)
fn maybe_print_stats(ctx: &mut Ctx, s: &mut S) {
    if naive_redundancy(s.k, &s.pushed) >= 0 {
        ctx.stat("print_stats");
        exec(ctx, s, "print_stats");
    } else {
        ctx.stat("print_stats:skipped-negative-redundancy");
    }
}

/// `how`: 0 = one `push` per string, 1 = one `extend` with everything, otherwise `extend` in
/// chunks of `how` strings with single pushes in between
fn run_list_how(ctx: &mut Ctx, s: &mut S, k: usize, strs: &[String], probes: &[String], idxs: &[usize], how: usize) {
    exec(ctx, s, &format!("new {}", k));
    let hl = |xs: &[String]| hex_list(xs.iter().map(|x| x.as_bytes()));
    match how {
        0 => {
            for x in strs {
                exec(ctx, s, &format!("push {}", hex(x.as_bytes())));
            }
        }
        1 => exec(ctx, s, &format!("extend {}", hl(strs))),
        c => {
            exec(ctx, s, "extend []");
            let mut i = 0;
            while i < strs.len() {
                let e = (i + c).min(strs.len());
                exec(ctx, s, &format!("extend {}", hl(&strs[i..e])));
                i = e;
                if i < strs.len() {
                    exec(ctx, s, &format!("push {}", hex(strs[i].as_bytes())));
                    i += 1;
                }
            }
        }
    }
    finish_list(ctx, s, probes, idxs);
}

fn run_list(ctx: &mut Ctx, s: &mut S, k: usize, strs: &[String], probes: &[String], idxs: &[usize]) {
    run_list_how(ctx, s, k, strs, probes, idxs, 0)
}

fn finish_list(ctx: &mut Ctx, s: &mut S, probes: &[String], idxs: &[usize]) {
    if s.k > 0 {
        maybe_print_stats(ctx, s);
    }
    exec(ctx, s, "build");
    exec(ctx, s, "parts");
    exec(ctx, s, "len");
    for &i in idxs {
        exec(ctx, s, &format!("get {}", i));
        exec(ctx, s, &format!("get_in_place {}", i));
    }
    for p in probes {
        exec(ctx, s, &format!("index_of {}", hex(p.as_bytes())));
        exec(ctx, s, &format!("contains {}", hex(p.as_bytes())));
    }
}

fn all_iters(ctx: &mut Ctx, s: &mut S, n: usize) {
    for op in ["iter", "into_iter", "lend", "into_lender"] {
        exec(ctx, s, op);
    }
    for j in [0, 1, n / 2, n, n + 1] {
        let rest = n.saturating_sub(j);
        let mut ks = vec![0, 1, rest.saturating_sub(1), rest, usize::MAX];
        ks.dedup();
        for k in ks {
            exec(ctx, s, &format!("iter_proto {} {}", j, k));
            exec(ctx, s, &format!("lend_proto {} {}", j, k));
        }
    }
    for j in 0..=n + 1 {
        exec(ctx, s, &format!("iter_from {}", j));
        exec(ctx, s, &format!("lend_from {}", j));
    }
    exec(ctx, s, &format!("into_iter_from {}", n / 2));
}

fn rear_case(ctx: &mut Ctx, rear: usize, common: usize, k: usize) {
    // previous string = common prefix + `rear` more bytes; next string shares exactly `common`
    ctx.case();
    let mut s = fresh();
    let pre: String = "ab€".chars().cycle().take(common).collect();
    let long: String = pre.clone() + &"m".repeat(rear);
    let strs = vec![
        "a".to_string(),
        long.clone(),
        pre.clone() + "z",
        pre.clone() + "zz",
        long.clone() + "q",
    ];
    let probes = vec![long.clone(), pre.clone() + "z", pre.clone(), long.clone() + "r"];
    run_list(ctx, &mut s, k, &strs, &probes, &[0, 1, 2, 3, 4, 5]);
    for op in ["iter", "lend_from 1", "iter_from 2", "lend_from 3", "iter_from 5"] {
        exec(ctx, &mut s, op);
    }
    ctx.shape(format!("rear:{}:{}:{}", rear, common, k));
    ctx.stat("rear-boundary");
}

const TAILS: &[&str] = &["-", "00", "ff80", "7f", "fe0102030405060708", "80"];

fn vbyte_directed(ctx: &mut Ctx) {
    ctx.case();
    let mut s = fresh();
    let ub = upper_bounds();
    let mut vals: Vec<u128> = vec![0, 1, 2, 127, (1 << 63) - 1, 1 << 63, (1 << 63) + 1, VBYTE_LIMIT - 1];
    for k in 1..=8 {
        vals.extend([ub[k] - 1, ub[k], ub[k] + 1, ub[k] + 255, ub[k] + 256]);
    }
    for j in 0..=63u32 {
        let p = 1u128 << j;
        vals.extend([p - 1, p, p + 1]);
    }
    for (i, v) in vals.iter().enumerate() {
        if *v >= VBYTE_LIMIT {
            continue;
        }
        exec(ctx, &mut s, &format!("vbyte {} {}", v, TAILS[i % TAILS.len()]));
        exec(ctx, &mut s, &format!("vbyte {} -", v));
    }
    ctx.shape("vbyte:directed".into());
}

/// random values in every code-length class, random tails
fn vbyte_random(ctx: &mut Ctx) {
    ctx.case();
    let mut s = fresh();
    let ub = upper_bounds();
    for _ in 0..40 {
        let k = 1 + ctx.rng.usize_below(9);
        let (lo, hi) = if k == 9 { (ub[8], VBYTE_LIMIT) } else { (ub[k - 1], ub[k]) };
        let v = match ctx.rng.below(4) {
            0 => lo + (ctx.rng.below(300) as u128).min(hi - lo - 1),
            1 => hi - 1 - (ctx.rng.below(300) as u128).min(hi - lo - 1),
            _ => lo + (ctx.rng.next_u64() as u128) % (hi - lo),
        };
        let tail: Vec<u8> = (0..ctx.rng.usize_below(4)).map(|_| ctx.rng.next_u64() as u8).collect();
        ctx.stat(&format!("vbyte:len{}", k));
        exec(ctx, &mut s, &format!("vbyte {} {}", v, hex(&tail)));
    }
    ctx.shape("vbyte:random".into());
}

/// hand-listed cases hitting every model branch, independent of the seed
fn directed(ctx: &mut Ctx) {
    vbyte_directed(ctx);
    let w = |xs: &[&str]| -> Vec<String> { xs.iter().map(|x| x.to_string()).collect() };
    let lists: Vec<Vec<String>> = vec![
        w(&[]),
        w(&[""]),
        w(&["", ""]),
        w(&["a"]),
        w(&["aa", "aab", "abc", "abdd", "abde", "abdf"]),
        w(&["", "a", "a", "a", "ab", "ab", "b", "b€", "b€", "b€𝄞", "c", "é", "ê", "€", "𝄞", "\u{10FFFF}"]),
        w(&["b", "a"]),
        w(&["a", "b", "a"]),
        w(&["abc", "ab", "a", ""]),
        w(&["é", "ê", "e", "€uro", "€", "𝄞𝄞", "𝄞"]),
        w(&["a", "aa", "aaa", "aaaa", "aaaaa", "aaaaaa", "aaaaaaa", "aaaaaaaa", "aaaaaaaaa"]),
        w(&["aaaaaaaaa", "aaaaaaaa", "aaaaaaa", "aaaaaa", "aaaaa", "aaaa", "aaa", "aa", "a"]),
        w(&["x", "x", "x", "x", "x"]),
    ];
    for strs in &lists {
        let n = strs.len();
        for k in [1usize, 2, 3, 4, 7, 64, n.max(1), n + 1, 0] {
            ctx.case();
            let mut s = fresh();
            let mut probes: Vec<String> = strs.clone();
            probes.extend(w(&["", "a", "aa", "ab", "abd", "abdda", "abdg", "b", "zz", "é", "\u{1}", "€ur", "€urop"]));
            // keys containing NUL: never stored; must not be confused with `head NUL next-entry`
            probes.extend(w(&["\0", "a\0", "a\0b", "a\0a", "aa\0", "b\0\0x", "abc\0ab", "x\0x", "\0a", "é\0ê"]));
            let idxs: Vec<usize> = (0..n + 3).chain([usize::MAX]).collect();
            let how = match k {
                2 | 64 => 1,
                3 => 2,
                0 => 3,
                _ => 0,
            };
            run_list_how(ctx, &mut s, k, strs, &probes, &idxs, how);
            all_iters(ctx, &mut s, n);
            // the builder stays usable after build
            exec(ctx, &mut s, "push 7a7a7a");
            exec(ctx, &mut s, "build");
            exec(ctx, &mut s, "parts");
            exec(ctx, &mut s, "iter");
            exec(ctx, &mut s, "index_of 7a7a7a");
            exec(ctx, &mut s, "extend [7a7a7a,7a7a7a61]");
            if k > 0 {
                maybe_print_stats(ctx, &mut s);
            }
            exec(ctx, &mut s, "build");
            exec(ctx, &mut s, "into_iter");
            ctx.shape(format!("directed:{}:{}", n, k));
        }
    }
    // rear lengths around the code boundaries
    let mut rears = vec![0usize, 1, 126, 127, 128, 129, 16510, 16511, 16512, 16513];
    if ctx.tier == Tier::Thorough {
        rears.extend([2113662, 2113663, 2113664, 2113665]);
    }
    for &r in &rears {
        for (c, k) in [(0usize, 4usize), (3, 4), (1, 2), (2, 64)] {
            if r > 20000 && c != 3 {
                continue;
            }
            rear_case(ctx, r, c, k);
        }
    }
}

fn random_case(ctx: &mut Ctx) {
    ctx.case();
    let mut s = fresh();
    let n = match ctx.rng.below(10) {
        0 => 0,
        1 => 1,
        2 => 2,
        3..=6 => 3 + ctx.rng.usize_below(12),
        7 | 8 => 15 + ctx.rng.usize_below(30),
        _ => 45 + ctx.rng.usize_below(100),
    };
    let mut strs: Vec<String> = vec![];
    for _ in 0..n {
        let x = gen_word(ctx, &strs);
        strs.push(x);
    }
    let order = ctx.rng.below(8);
    match order {
        0..=3 => strs.sort_by(|a, b| a.as_bytes().cmp(b.as_bytes())),
        4 => {
            strs.sort_by(|a, b| a.as_bytes().cmp(b.as_bytes()));
            strs.dedup();
        }
        5 => {
            // sorted except for one swap
            strs.sort_by(|a, b| a.as_bytes().cmp(b.as_bytes()));
            if strs.len() >= 2 {
                let i = ctx.rng.usize_below(strs.len() - 1);
                strs.swap(i, i + 1);
            }
        }
        6 => strs.sort_by(|a, b| b.as_bytes().cmp(a.as_bytes())),
        _ => {}
    }
    let n = strs.len();
    let k = if ctx.rng.chance(1, 40) { 0 } else { gen_k(ctx, n) };
    let np = 4 + ctx.rng.usize_below(12);
    let probes: Vec<String> = (0..np).map(|_| gen_probe(ctx, &strs, k)).collect();
    let ni = 3 + ctx.rng.usize_below(8);
    let idxs: Vec<usize> = (0..ni).map(|_| gen_index(ctx, n, k)).collect();
    let how = match ctx.rng.below(6) {
        0 => 1,
        1 => 2 + ctx.rng.usize_below(7),
        _ => 0,
    };
    run_list_how(ctx, &mut s, k, &strs, &probes, &idxs, how);
    for _ in 0..(2 + ctx.rng.usize_below(5)) {
        let j = gen_index(ctx, n, k);
        let op = *ctx.rng.pick(&["iter_from", "lend_from", "into_iter_from"]);
        exec(ctx, &mut s, &format!("{} {}", op, j));
    }
    for op in ["iter_proto", "lend_proto"] {
        let j = gen_index(ctx, n, k);
        let rest = n.saturating_sub(j);
        let kk = match ctx.rng.below(5) {
            0 => 0,
            1 => rest,
            2 => rest.saturating_sub(1),
            3 => usize::MAX - ctx.rng.usize_below(2),
            _ => ctx.rng.usize_below(rest + 2),
        };
        exec(ctx, &mut s, &format!("{} {} {}", op, j, kk));
    }
    let op = *ctx.rng.pick(&["iter", "into_iter", "lend", "into_lender"]);
    exec(ctx, &mut s, op);
    let sorted = is_sorted(&strs);
    let dup = {
        let mut t = strs.clone();
        t.sort();
        t.windows(2).any(|w| w[0] == w[1])
    };
    let maxlen = strs.iter().map(|x| x.len()).max().unwrap_or(0);
    if sorted {
        ctx.stat("list:sorted");
    } else {
        ctx.stat("list:unsorted");
    }
    if dup {
        ctx.stat("list:dups");
    }
    let kc = if k == 0 {
        "0".to_string()
    } else if k == n {
        "n".into()
    } else if k > n {
        ">n".into()
    } else if n % k == 0 {
        format!("{}|n", k.min(9))
    } else {
        format!("{}", k.min(9))
    };
    let nc = match n {
        0 => "0",
        1 => "1",
        2..=7 => "few",
        8..=40 => "mid",
        _ => "many",
    };
    ctx.shape(format!(
        "k{}:n{}:{}:{}:{}",
        kc,
        nc,
        if sorted { "S" } else { "U" },
        if dup { "D" } else { "d" },
        if maxlen >= 128 { "L" } else { "s" }
    ));
}

pub fn run(ctx: &mut Ctx) {
    directed(ctx);
    let n = if ctx.tier == Tier::Quick { 1200 } else { 12000 };
    for i in 0..n {
        random_case(ctx);
        if i % 20 == 0 {
            vbyte_random(ctx);
        }
    }
}

/// re-execute the ops of a replay file
pub fn replay(ctx: &mut Ctx, lines: &[String]) {
    let mut s = fresh();
    for l in lines {
        if l.starts_with("case ") {
            ctx.op(l);
            ctx.reply("case");
            s = fresh();
        } else {
            exec(ctx, &mut s, l);
        }
    }
}
