//! Runner `bitvec`: operation histories on `BitVec` / `AtomicBitVec` (C06, C10 word loops, C14).
//!
//! Register `a` is the vector under test, `b` a saved copy (for `eq`).  After every op the
//! reply carries the result, `len` and the raw backing words of `a`.  The naive oracle is a
//! `Vec<bool>`; additionally, for non-growing mutators, every storage bit at or beyond `len`
//! must be unchanged (C14 frame).
use crate::common::*;
use std::sync::atomic::{AtomicUsize, Ordering};
use sux::bits::{AtomicBitVec, BitVec, OnesIterator, ZerosIterator};
use sux::traits::{BitCount, BitLength, RankHinted, SelectHinted, SelectZeroHinted};

/// the literal lists of the `bit_vec![x, y, ...]` form exercised by `macro_lit`
const MACRO_LITS: &[&str] = &["1", "0", "0110100", "1111111111111111111111111111111111111111111111111111111111111111", "10000000000000000000000000000000000000000000000000000000000000001"];

fn real_macro_lit(bits: &str) -> BitVec<Vec<usize>> {
    match bits {
        "1" => sux::bit_vec![1],
        "0" => sux::bit_vec![0],
        "0110100" => sux::bit_vec![0, 1, 1, 0, 1, 0, 0],
        "1111111111111111111111111111111111111111111111111111111111111111" => sux::bit_vec![
            1, 1, 1, 1, 1, 1, 1, 1, 1, 1, 1, 1, 1, 1, 1, 1, 1, 1, 1, 1, 1, 1, 1, 1, 1, 1, 1, 1, 1, 1, 1, 1, 1, 1, 1, 1, 1, 1,
            1, 1, 1, 1, 1, 1, 1, 1, 1, 1, 1, 1, 1, 1, 1, 1, 1, 1, 1, 1, 1, 1, 1, 1, 1, 1
        ],
        "10000000000000000000000000000000000000000000000000000000000000001" => sux::bit_vec![
            1, 0, 0, 0, 0, 0, 0, 0, 0, 0, 0, 0, 0, 0, 0, 0, 0, 0, 0, 0, 0, 0, 0, 0, 0, 0, 0, 0, 0, 0, 0, 0, 0, 0, 0, 0, 0, 0,
            0, 0, 0, 0, 0, 0, 0, 0, 0, 0, 0, 0, 0, 0, 0, 0, 0, 0, 0, 0, 0, 0, 0, 0, 0, 0, 1,
        ],
        _ => panic!("macro_lit: not a literal list of the table"),
    }
}

struct S {
    a: BitVec<Vec<usize>>,
    b: BitVec<Vec<usize>>,
    oa: Vec<bool>,
    ob: Vec<bool>,
}

fn words_of(v: &BitVec<Vec<usize>>) -> Vec<usize> {
    let w: &[usize] = v.as_ref();
    w.to_vec()
}

fn dump(v: &BitVec<Vec<usize>>) -> String {
    format!("{};{}", v.len(), fmt_list(words_of(v)))
}

fn raw_bit(ws: &[usize], k: usize) -> bool {
    (ws[k / 64] >> (k % 64)) & 1 != 0
}

fn with_atomic<T>(
    a: &mut BitVec<Vec<usize>>,
    f: impl FnOnce(&mut AtomicBitVec<Vec<AtomicUsize>>) -> T,
) -> T {
    let v = std::mem::replace(a, BitVec::new(0));
    let mut at: AtomicBitVec<Vec<AtomicUsize>> = v.into();
    let r = catch(|| f(&mut at));
    *a = at.into();
    match r {
        Some(r) => r,
        None => std::panic::resume_unwind(Box::new("atomic op panicked")),
    }
}

/// execute one op on the implementation and the oracle, emit op + reply
fn exec(ctx: &mut Ctx, s: &mut S, op: &str) {
    ctx.op(op);
    let t: Vec<&str> = op.split(' ').collect();
    let num = |i: usize| -> usize { t[i].parse::<usize>().unwrap() };
    let bit = |i: usize| -> bool { t[i] == "1" };
    let bits_arg = |i: usize| -> Vec<bool> {
        if t[i] == "-" {
            vec![]
        } else {
            t[i].chars().map(|c| c == '1').collect()
        }
    };
    let before_words = words_of(&s.a);
    let before_len = s.a.len();
    // (implementation result, oracle result); state updated in place
    let mut grow = false; // op may legitimately change len / allocate
    let (res, ores): (Option<String>, String) = match t[0] {
        "new" => {
            grow = true;
            let n = num(1);
            s.oa = vec![false; n];
            (catch(|| s.a = BitVec::new(n)).map(|_| "ok".into()), "ok".into())
        }
        "with_value" => {
            grow = true;
            let (n, v) = (num(1), bit(2));
            s.oa = vec![v; n];
            (
                catch(|| s.a = BitVec::with_value(n, v)).map(|_| "ok".into()),
                "ok".into(),
            )
        }
        "with_capacity" => {
            grow = true;
            let n = num(1);
            s.oa = vec![];
            (
                catch(|| s.a = BitVec::with_capacity(n)).map(|_| "ok".into()),
                "ok".into(),
            )
        }
        "raw" => {
            grow = true;
            let ws: Vec<usize> = t[1][1..t[1].len() - 1]
                .split(',')
                .filter(|x| !x.is_empty())
                .map(|x| x.parse().unwrap())
                .collect();
            let len = num(2);
            assert!(len <= ws.len() * 64);
            s.oa = (0..len).map(|k| raw_bit(&ws, k)).collect();
            s.a = unsafe { BitVec::from_raw_parts(ws, len) };
            (Some("ok".into()), "ok".into())
        }
        "push" => {
            grow = true;
            let v = bit(1);
            s.oa.push(v);
            (catch(|| s.a.push(v)).map(|_| "ok".into()), "ok".into())
        }
        "pop" => {
            grow = true;
            let o = match s.oa.pop() {
                Some(v) => format!("ok {}", b01(v)),
                None => "ok none".into(),
            };
            (
                catch(|| s.a.pop()).map(|r| match r {
                    Some(v) => format!("ok {}", b01(v)),
                    None => "ok none".into(),
                }),
                o,
            )
        }
        "set" | "aset" => {
            let (i, v) = (num(1), bit(2));
            let o = if i < s.oa.len() {
                s.oa[i] = v;
                "ok".to_string()
            } else {
                "panic".into()
            };
            let r = if t[0] == "set" {
                catch(|| s.a.set(i, v))
            } else {
                catch(|| with_atomic(&mut s.a, |at| at.set(i, v, Ordering::Relaxed)))
            };
            (r.map(|_| "ok".into()), o)
        }
        "aswap" => {
            let (i, v) = (num(1), bit(2));
            let o = if i < s.oa.len() {
                let old = s.oa[i];
                s.oa[i] = v;
                format!("ok {}", b01(old))
            } else {
                "panic".into()
            };
            let r = catch(|| with_atomic(&mut s.a, |at| at.swap(i, v, Ordering::SeqCst)));
            (r.map(|x| format!("ok {}", b01(x))), o)
        }
        "get" | "index" | "aget" => {
            let i = num(1);
            let o = if i < s.oa.len() {
                format!("ok {}", b01(s.oa[i]))
            } else {
                "panic".into()
            };
            let r = match t[0] {
                "get" => catch(|| s.a.get(i)),
                "index" => catch(|| s.a[i]),
                _ => catch(|| with_atomic(&mut s.a, |at| at.get(i, Ordering::Relaxed))),
            };
            (r.map(|x| format!("ok {}", b01(x))), o)
        }
        "resize" => {
            grow = true;
            let (n, v) = (num(1), bit(2));
            s.oa.resize(n, v);
            (catch(|| s.a.resize(n, v)).map(|_| "ok".into()), "ok".into())
        }
        "fill" | "par_fill" | "afill" => {
            let v = bit(1);
            s.oa.iter_mut().for_each(|x| *x = v);
            let r = match t[0] {
                "fill" => catch(|| s.a.fill(v)),
                "par_fill" => catch(|| s.a.par_fill(v)),
                _ => catch(|| with_atomic(&mut s.a, |at| at.fill(v, Ordering::Relaxed))),
            };
            (r.map(|_| "ok".into()), "ok".into())
        }
        "flip" | "par_flip" | "aflip" => {
            s.oa.iter_mut().for_each(|x| *x = !*x);
            let r = match t[0] {
                "flip" => catch(|| s.a.flip()),
                "par_flip" => catch(|| s.a.par_flip()),
                _ => catch(|| with_atomic(&mut s.a, |at| at.flip(Ordering::Relaxed))),
            };
            (r.map(|_| "ok".into()), "ok".into())
        }
        "reset" | "par_reset" | "areset" => {
            s.oa.iter_mut().for_each(|x| *x = false);
            let r = match t[0] {
                "reset" => catch(|| s.a.reset()),
                "par_reset" => catch(|| s.a.par_reset()),
                _ => catch(|| with_atomic(&mut s.a, |at| at.reset(Ordering::Relaxed))),
            };
            (r.map(|_| "ok".into()), "ok".into())
        }
        "extend" => {
            grow = true;
            let bs = bits_arg(1);
            s.oa.extend(bs.iter().copied());
            (
                catch(|| s.a.extend(bs.iter().copied())).map(|_| "ok".into()),
                "ok".into(),
            )
        }
        "collect" => {
            grow = true;
            let bs = bits_arg(1);
            s.oa = bs.clone();
            (
                catch(|| s.a = bs.iter().copied().collect::<BitVec>()).map(|_| "ok".into()),
                "ok".into(),
            )
        }
        "macro" => {
            // the list form of bit_vec!: with_capacity + push
            grow = true;
            let bs = bits_arg(1);
            s.oa = bs.clone();
            (
                catch(|| {
                    let mut v = BitVec::with_capacity(bs.len());
                    for &x in &bs {
                        v.push(x);
                    }
                    s.a = v
                })
                .map(|_| "ok".into()),
                "ok".into(),
            )
        }
        "iter" => (
            catch(|| fmt_bools(s.a.iter())).map(|x| format!("ok {}", x)),
            format!("ok {}", fmt_bools(s.oa.iter().copied())),
        ),
        "aiter" => (
            catch(|| with_atomic(&mut s.a, |at| fmt_bools(at.iter()))).map(|x| format!("ok {}", x)),
            format!("ok {}", fmt_bools(s.oa.iter().copied())),
        ),
        "it_nth" => {
            // two successive `Iterator::nth` calls on the bit / ones / zeros iterator (the second
            // possibly after an overshooting first one), then everything that is left
            let (a, b): (usize, usize) = (t[2].parse().unwrap(), t[3].parse().unwrap());
            fn two<T: Clone>(l: &[T], a: usize, b: usize) -> (Option<T>, Option<T>, Vec<T>) {
                let x = l.get(a).cloned();
                let l1 = &l[(a + 1).min(l.len())..];
                let y = l1.get(b).cloned();
                (x, y, l1[(b + 1).min(l1.len())..].to_vec())
            }
            fn run<T>(mut it: impl Iterator<Item = T>, a: usize, b: usize) -> (Option<T>, Option<T>, Vec<T>) {
                let x = it.nth(a);
                let y = it.nth(b);
                (x, y, it.collect())
            }
            let fb = |x: Option<bool>| x.map(|x| b01(x).to_string()).unwrap_or("none".into());
            let fu = |x: Option<usize>| x.map(|x| x.to_string()).unwrap_or("none".into());
            match t[1] {
                "bits" | "abits" => {
                    let l: Vec<bool> = s.oa.clone();
                    let (x, y, r) = two(&l, a, b);
                    let o = format!("ok {} {} {}", fb(x), fb(y), fmt_bools(r));
                    let g = if t[1] == "bits" {
                        catch(|| run(s.a.iter(), a, b))
                    } else {
                        catch(|| with_atomic(&mut s.a, |at| run(at.iter(), a, b)))
                    };
                    (g.map(|(x, y, r)| format!("ok {} {} {}", fb(x), fb(y), fmt_bools(r))), o)
                }
                k => {
                    let want = k == "ones";
                    let l: Vec<usize> = s.oa.iter().enumerate().filter(|x| *x.1 == want).map(|x| x.0).collect();
                    let (x, y, r) = two(&l, a, b);
                    let o = format!("ok {} {} {}", fu(x), fu(y), fmt_list(r));
                    let g = if want { catch(|| run(s.a.iter_ones(), a, b)) } else { catch(|| run(s.a.iter_zeros(), a, b)) };
                    (g.map(|(x, y, r)| format!("ok {} {} {}", fu(x), fu(y), fmt_list(r))), o)
                }
            }
        }
        "ones" => (
            catch(|| fmt_list(s.a.iter_ones())).map(|x| format!("ok {}", x)),
            format!(
                "ok {}",
                fmt_list(s.oa.iter().enumerate().filter(|x| *x.1).map(|x| x.0))
            ),
        ),
        "zeros" => (
            catch(|| fmt_list(s.a.iter_zeros())).map(|x| format!("ok {}", x)),
            format!(
                "ok {}",
                fmt_list(s.oa.iter().enumerate().filter(|x| !*x.1).map(|x| x.0))
            ),
        ),
        "count_ones" | "par_count_ones" | "acount" => {
            let o = format!("ok {}", s.oa.iter().filter(|x| **x).count());
            let r = match t[0] {
                "count_ones" => catch(|| s.a.count_ones()),
                "par_count_ones" => catch(|| s.a.par_count_ones()),
                _ => catch(|| with_atomic(&mut s.a, |at| at.count_ones())),
            };
            (r.map(|x| format!("ok {}", x)), o)
        }
        "count_zeros" => (
            catch(|| s.a.count_zeros()).map(|x| format!("ok {}", x)),
            format!("ok {}", s.oa.iter().filter(|x| !**x).count()),
        ),
        "sv_count_ones" | "sv_ones" | "sv_zeros" | "sv_iter" | "sv_get" | "sv_eq" => {
            // the same contents seen through BitVec<&[usize]> over caller-supplied storage that starts
            // at an odd word offset (8 mod 16 bytes) and at an even one: both must answer alike
            let ws = words_of(&s.a);
            let len = s.a.len();
            let run = |want_odd: bool| -> Option<String> {
                // buffer = two guard words, the contents, one guard word; the view starts at the
                // guard-word index whose address is 8 mod 16 (odd) resp. 0 mod 16 (even)
                let mut buf: Vec<usize> = vec![usize::MAX; 2];
                buf.extend_from_slice(&ws);
                buf.push(0x5555_5555_5555_5555);
                let base = buf.as_ptr() as usize;
                let k = if ((base + 16) % 16 == 8) == want_odd { 2 } else { 1 };
                // contents must start at index k: rebuild with k guard words in front
                let mut b2: Vec<usize> = Vec::with_capacity(ws.len() + 4);
                let base2 = b2.as_ptr() as usize;
                let k2 = if ((base2 + 8 * k) % 16 == 8) == want_odd { k } else { k + 1 };
                b2.extend(std::iter::repeat(usize::MAX).take(k2));
                b2.extend_from_slice(&ws);
                b2.push(0x5555_5555_5555_5555);
                debug_assert_eq!(b2.as_ptr() as usize, base2);
                let _ = buf;
                let view: BitVec<&[usize]> =
                    unsafe { BitVec::from_raw_parts(&b2[k2..k2 + ws.len()], len) };
                catch(|| match t[0] {
                    "sv_count_ones" => format!("ok {}", view.count_ones()),
                    "sv_ones" => format!("ok {}", fmt_list(view.iter_ones())),
                    "sv_zeros" => format!("ok {}", fmt_list(view.iter_zeros())),
                    "sv_iter" => format!("ok {}", fmt_bools(view.iter())),
                    "sv_get" => {
                        let i = t[1].parse::<usize>().unwrap();
                        format!("ok {}", b01(view.get(i)))
                    }
                    _ => format!("ok {}", b01(view == s.b)),
                })
            };
            let r1 = run(true);
            let r2 = run(false);
            let o = match t[0] {
                "sv_count_ones" => format!("ok {}", s.oa.iter().filter(|x| **x).count()),
                "sv_ones" => format!("ok {}", fmt_list(s.oa.iter().enumerate().filter(|x| *x.1).map(|x| x.0))),
                "sv_zeros" => format!("ok {}", fmt_list(s.oa.iter().enumerate().filter(|x| !*x.1).map(|x| x.0))),
                "sv_iter" => format!("ok {}", fmt_bools(s.oa.iter().copied())),
                "sv_get" => {
                    let i = t[1].parse::<usize>().unwrap();
                    if i < s.oa.len() { format!("ok {}", b01(s.oa[i])) } else { "panic".into() }
                }
                _ => format!("ok {}", b01(s.oa == s.ob)),
            };
            if r1 != r2 {
                ctx.check_oracle("slice views at odd and even word offsets agree", &format!("{:?} vs {:?}", r1, r2));
            }
            (r1, o)
        }

        // ---- type-aware API coverage (API_COVERAGE_A.md) ----
        "macro_lit" => {
            // the list form of the real `bit_vec!`
            grow = true;
            let bs = bits_arg(1);
            s.oa = bs.clone();
            (catch(|| s.a = real_macro_lit(t[1])).map(|_| "ok".into()), "ok".into())
        }
        "macro_fill" => {
            // the real `bit_vec![]`, `[false; n]`, `[0; n]`, `[true; n]`, `[1; n]`
            grow = true;
            let n = num(2);
            let v = matches!(t[1], "true" | "1");
            s.oa = vec![v; if t[1] == "empty" { 0 } else { n }];
            let r = catch(|| {
                s.a = match t[1] {
                    "empty" => sux::bit_vec![],
                    "false" => sux::bit_vec![false; n],
                    "0" => sux::bit_vec![0; n],
                    "true" => sux::bit_vec![true; n],
                    "1" => sux::bit_vec![1; n],
                    _ => panic!("unknown macro form"),
                }
            });
            (r.map(|_| "ok".into()), "ok".into())
        }
        "anew" | "awith_value" => {
            // the constructors of the atomic form, converted
            grow = true;
            let n = num(1);
            let v = t[0] == "awith_value" && bit(2);
            s.oa = vec![v; n];
            let r = catch(|| {
                let at: AtomicBitVec = if t[0] == "anew" { AtomicBitVec::new(n) } else { AtomicBitVec::with_value(n, v) };
                s.a = at.into();
            });
            (r.map(|_| "ok".into()), "ok".into())
        }
        "capacity" => {
            // `capacity()` is 64 times the capacity of the backend and covers the contents
            let r = catch(|| {
                let c = s.a.capacity();
                let v = std::mem::replace(&mut s.a, BitVec::new(0));
                let (b, l) = v.into_raw_parts();
                let ok = c == b.capacity() * 64 && c >= l;
                s.a = unsafe { BitVec::from_raw_parts(b, l) };
                b01(ok)
            });
            (r.map(|x| format!("ok {}", x)), "ok 1".into())
        }
        "get_unchecked" | "set_unchecked" => {
            let i = num(1);
            if i < s.oa.len() {
                if t[0] == "get_unchecked" {
                    (
                        catch(|| unsafe { s.a.get_unchecked(i) }).map(|x| format!("ok {}", b01(x))),
                        format!("ok {}", b01(s.oa[i])),
                    )
                } else {
                    let v = bit(2);
                    s.oa[i] = v;
                    (catch(|| unsafe { s.a.set_unchecked(i, v) }).map(|_| "ok".into()), "ok".into())
                }
            } else {
                (Some("out-of-contract".into()), "out-of-contract".into())
            }
        }
        "display" => (
            catch(|| format!("{}", s.a)).map(|x| format!("ok {}", x)),
            format!("ok [{}]", s.oa.iter().map(|&b| if b { '1' } else { '0' }).collect::<String>()),
        ),
        "into_iter" => (
            catch(|| fmt_bools((&s.a).into_iter())).map(|x| format!("ok {}", x)),
            format!("ok {}", fmt_bools(s.oa.iter().copied())),
        ),
        "len2" => {
            // inherent `len` and `BitLength::len`, plain and atomic
            let r = catch(|| {
                let (a, b) = (BitVec::len(&s.a), BitLength::len(&s.a));
                let (c, d) = with_atomic(&mut s.a, |at| (AtomicBitVec::len(at), BitLength::len(at)));
                if a == b && b == c && c == d { format!("ok {}", a) } else { format!("ok {}/{}/{}/{}", a, b, c, d) }
            });
            (r, format!("ok {}", s.oa.len()))
        }
        "aindex" => {
            let i = num(1);
            let o = if i < s.oa.len() { format!("ok {}", b01(s.oa[i])) } else { "panic".into() };
            (catch(|| with_atomic(&mut s.a, |at| at[i])).map(|x| format!("ok {}", b01(x))), o)
        }
        "apar_fill" => {
            let v = bit(1);
            s.oa.iter_mut().for_each(|x| *x = v);
            (catch(|| with_atomic(&mut s.a, |at| at.par_fill(v, Ordering::Relaxed))).map(|_| "ok".into()), "ok".into())
        }
        "apar_flip" => {
            s.oa.iter_mut().for_each(|x| *x = !*x);
            (catch(|| with_atomic(&mut s.a, |at| at.par_flip(Ordering::Relaxed))).map(|_| "ok".into()), "ok".into())
        }
        "apar_reset" => {
            s.oa.iter_mut().for_each(|x| *x = false);
            (catch(|| with_atomic(&mut s.a, |at| at.par_reset(Ordering::Relaxed))).map(|_| "ok".into()), "ok".into())
        }
        "apar_count" => (
            catch(|| with_atomic(&mut s.a, |at| at.par_count_ones())).map(|x| format!("ok {}", x)),
            format!("ok {}", s.oa.iter().filter(|x| **x).count()),
        ),
        "ones_new" | "zeros_new" => {
            // the public constructors of the position iterators accept any length: positions are
            // bounded by the length AND by the backend
            let l = num(1);
            let ws = words_of(&s.a);
            let want = t[0] == "ones_new";
            let o: Vec<usize> = (0..l.min(ws.len() * 64)).filter(|&k| raw_bit(&ws, k) == want).collect();
            let r = catch(|| {
                if want { fmt_list(OnesIterator::new(&ws, l)) } else { fmt_list(ZerosIterator::new(&ws, l)) }
            });
            (r.map(|x| format!("ok {}", x)), format!("ok {}", fmt_list(o)))
        }
        "sv_atomic" => {
            // `BitVec<&[usize]>` -> `AtomicBitVec<&[AtomicUsize]>` -> back (the `From` glue of borrowed views)
            let ws = words_of(&s.a);
            let len = s.a.len();
            let bits = fmt_bools(s.oa.iter().copied());
            let o = format!("ok {} {} {} {} {}", len, bits, s.oa.iter().filter(|x| **x).count(), len, bits);
            let r = catch(|| {
                let view: BitVec<&[usize]> = unsafe { BitVec::from_raw_parts(&ws[..], len) };
                let av: AtomicBitVec<&[AtomicUsize]> = view.into();
                let n = av.len();
                let got = fmt_bools((0..n).map(|i| av.get(i, Ordering::Relaxed)));
                let c = av.count_ones();
                let back: BitVec<&[usize]> = av.into();
                format!("ok {} {} {} {} {}", n, got, c, back.len(), fmt_bools(back.iter()))
            });
            (r, o)
        }
        "svm_set" | "svm_aset" | "svm_fill" | "svm_flip" => {
            // the mutators over caller-supplied storage `&mut [usize]` between two guard words, plain
            // and through the `From` glue to `AtomicBitVec<&mut [AtomicUsize]>` and back
            let ws = words_of(&s.a);
            let len = s.a.len();
            let n = ws.len();
            let mut buf: Vec<usize> = vec![0x3333_3333_3333_3333];
            buf.extend_from_slice(&ws);
            buf.push(0x5555_5555_5555_5555);
            let o = match t[0] {
                "svm_set" | "svm_aset" => {
                    let (i, v) = (num(1), bit(2));
                    if i < s.oa.len() {
                        s.oa[i] = v;
                        "ok"
                    } else {
                        "panic"
                    }
                }
                "svm_fill" => {
                    let v = bit(1);
                    s.oa.iter_mut().for_each(|x| *x = v);
                    "ok"
                }
                _ => {
                    s.oa.iter_mut().for_each(|x| *x = !*x);
                    "ok"
                }
            };
            let r = catch(|| {
                let mut view: BitVec<&mut [usize]> = unsafe { BitVec::from_raw_parts(&mut buf[1..1 + n], len) };
                match t[0] {
                    "svm_set" => view.set(num(1), bit(2)),
                    "svm_fill" => view.fill(bit(1)),
                    "svm_flip" => view.flip(),
                    _ => {
                        let av: AtomicBitVec<&mut [AtomicUsize]> = view.into();
                        av.set(num(1), bit(2), Ordering::Relaxed);
                        let back: BitVec<&mut [usize]> = av.into();
                        assert!(back.len() == len);
                    }
                }
            });
            if buf[0] != 0x3333_3333_3333_3333 || buf[n + 1] != 0x5555_5555_5555_5555 {
                ctx.check_oracle("guard words untouched", &format!("guard word changed by {}", t[0]));
            }
            s.a = unsafe { BitVec::from_raw_parts(buf[1..1 + n].to_vec(), len) };
            (r.map(|_| "ok".into()), o.into())
        }
        "rank_hinted" | "select_hinted" | "select_zero_hinted" => {
            // the hinted primitives of `BitVec` (unsafe trait methods), under their contracts:
            // rank_hinted(pos, hint word, ones before that word) with hint word <= pos / 64, pos < len;
            // select[_zero]_hinted(rank, hint bit position, rank of the hint) with the hint at or
            // before the answer and rank below the number of ones [zeros] of the vector
            let (x, hp, hr) = (num(1), num(2), num(3));
            let ws = words_of(&s.a);
            let zero = t[0] == "select_zero_hinted";
            let cnt_before = |p: usize, want: bool| (0..p).filter(|&k| raw_bit(&ws, k) == want).count();
            if t[0] == "rank_hinted" {
                if x < s.oa.len() && hp <= x / 64 && hr == cnt_before(hp * 64, true) {
                    // also through borrowed views of the same words at an odd and an even word offset
                    // of a larger buffer (8 mod 16 / 0 mod 16 addresses): the answer must not depend
                    // on where the storage lies
                    let wsu: Vec<usize> = s.a.as_ref().to_vec();
                    let len = s.a.len();
                    let via = |k: usize| -> Option<usize> {
                        let mut buf: Vec<usize> = vec![usize::MAX; k];
                        buf.extend_from_slice(&wsu);
                        buf.push(usize::MAX / 3);
                        let view: BitVec<&[usize]> = unsafe { BitVec::from_raw_parts(&buf[k..k + wsu.len()], len) };
                        catch(|| unsafe { view.rank_hinted(x, hp, hr) })
                    };
                    let direct = catch(|| unsafe { s.a.rank_hinted(x, hp, hr) });
                    let (v1, v2) = (via(1), via(2));
                    if v1 != direct || v2 != direct {
                        ctx.check_oracle(
                            "rank_hinted through slice views at word offsets 1 and 2 agrees with the owned vector",
                            &format!("owned {:?} offset1 {:?} offset2 {:?}", direct, v1, v2),
                        );
                    }
                    (
                        direct.map(|r| format!("ok {}", r)),
                        format!("ok {}", cnt_before(x, true)),
                    )
                } else {
                    (Some("out-of-contract".into()), "out-of-contract".into())
                }
            } else {
                let pos: Vec<usize> = (0..s.oa.len()).filter(|&k| s.oa[k] != zero).collect();
                if x < pos.len() && hp <= pos[x] && hr == cnt_before(hp, !zero) {
                    let r = if zero {
                        catch(|| unsafe { s.a.select_zero_hinted(x, hp, hr) })
                    } else {
                        catch(|| unsafe { s.a.select_hinted(x, hp, hr) })
                    };
                    (r.map(|r| format!("ok {}", r)), format!("ok {}", pos[x]))
                } else {
                    (Some("out-of-contract".into()), "out-of-contract".into())
                }
            }
        }
        "eq" => (
            catch(|| s.a == s.b).map(|x| format!("ok {}", b01(x))),
            format!("ok {}", b01(s.oa == s.ob)),
        ),
        "clone" => {
            s.ob = s.oa.clone();
            (catch(|| s.b = s.a.to_owned()).map(|_| "ok".into()), "ok".into())
        }
        "swapab" => {
            std::mem::swap(&mut s.a, &mut s.b);
            std::mem::swap(&mut s.oa, &mut s.ob);
            grow = true;
            (Some("ok".into()), "ok".into())
        }
        "conv" => {
            let r = catch(|| {
                let v = std::mem::replace(&mut s.a, BitVec::new(0));
                s.a = match t[1] {
                    "box" => {
                        let b: BitVec<Box<[usize]>> = v.into();
                        b.into()
                    }
                    "atomic" => {
                        let at: AtomicBitVec<Vec<AtomicUsize>> = v.into();
                        at.into()
                    }
                    "rawparts" => {
                        let (b, l) = v.into_raw_parts();
                        unsafe { BitVec::from_raw_parts(b, l) }
                    }
                    "map" => {
                        // `map` onto another backend type (same contents)
                        let b: BitVec<Box<[usize]>> = unsafe { v.map(|x| x.into_boxed_slice()) };
                        b.into()
                    }
                    "arawparts" => {
                        let at: AtomicBitVec<Vec<AtomicUsize>> = v.into();
                        let (b, l) = at.into_raw_parts();
                        let at: AtomicBitVec<Vec<AtomicUsize>> = unsafe { AtomicBitVec::from_raw_parts(b, l) };
                        at.into()
                    }
                    "asmut" => {
                        // `AsMut<[usize]>`: rewrite every word with itself
                        let mut v = v;
                        let w: &mut [usize] = v.as_mut();
                        for x in w.iter_mut() {
                            *x = std::hint::black_box(*x);
                        }
                        v
                    }
                    _ => {
                        let b: BitVec<Box<[usize]>> = v.into();
                        let at: AtomicBitVec<Box<[AtomicUsize]>> = b.into();
                        let b: BitVec<Box<[usize]>> = at.into();
                        b.into()
                    }
                };
            });
            (r.map(|_| "ok".into()), "ok".into())
        }
        _ => panic!("unknown op {}", op),
    };
    let res = res.unwrap_or_else(|| "panic".to_string());
    ctx.check_oracle(&ores, &res);
    // abstract state vs oracle
    let ws = words_of(&s.a);
    let len = s.a.len();
    if len != s.oa.len() {
        ctx.check_oracle(&format!("len {}", s.oa.len()), &format!("len {}", len));
    } else if len <= ws.len() * 64 {
        let got: Vec<bool> = (0..len).map(|k| raw_bit(&ws, k)).collect();
        if got != s.oa {
            ctx.check_oracle(
                &format!("bits {}", fmt_bools(s.oa.iter().copied())),
                &format!("bits {}", fmt_bools(got)),
            );
        }
    } else {
        ctx.check_oracle("len <= 64*words", &format!("len {} words {}", len, ws.len()));
    }
    // C14 frame: storage at or beyond len untouched by non-growing ops
    if !grow {
        if ws.len() != before_words.len() || len != before_len {
            ctx.check_oracle("frame: same shape", "frame: shape changed");
        } else {
            for k in len..ws.len() * 64 {
                if raw_bit(&ws, k) != raw_bit(&before_words, k) {
                    ctx.check_oracle(
                        &format!("frame: bit {} unchanged", k),
                        &format!("frame: bit {} changed by {}", k, t[0]),
                    );
                    break;
                }
            }
        }
    }
    ctx.reply(&format!("{};{}", res, dump(&s.a)));
}

const LENS: &[usize] = &[
    0, 0, 1, 2, 31, 62, 63, 64, 65, 66, 127, 128, 129, 191, 192, 193, 255, 256, 257, 320, 500, 511,
    512, 513, 1000,
];

fn gen_len(ctx: &mut Ctx) -> usize {
    if ctx.rng.chance(3, 4) {
        *ctx.rng.pick(LENS)
    } else {
        ctx.rng.usize_below(300)
    }
}

fn gen_bits(ctx: &mut Ctx, n: usize) -> String {
    if n == 0 {
        return "-".into();
    }
    let mode = ctx.rng.below(4);
    (0..n)
        .map(|_| match mode {
            0 => '0',
            1 => '1',
            2 => {
                if ctx.rng.chance(1, 16) {
                    '1'
                } else {
                    '0'
                }
            }
            _ => {
                if ctx.rng.bool() {
                    '1'
                } else {
                    '0'
                }
            }
        })
        .collect()
}

fn gen_index(ctx: &mut Ctx, len: usize) -> usize {
    // mostly valid, boundary seeking; ~10% out of range
    match ctx.rng.below(20) {
        0 => len,
        1 => len + 1 + ctx.rng.usize_below(130),
        2 => 0,
        3 | 4 => len.saturating_sub(1),
        5 => (len / 64) * 64,
        6 => ((len / 64) * 64).saturating_sub(1),
        7 => usize::MAX - ctx.rng.usize_below(2),
        _ => {
            if len == 0 {
                0
            } else {
                ctx.rng.usize_below(len)
            }
        }
    }
}

fn gen_ctor(ctx: &mut Ctx) -> String {
    match ctx.rng.below(10) {
        0 | 1 => format!("new {}", gen_len(ctx)),
        2 | 3 => {
            let n = gen_len(ctx);
            format!("with_value {} {}", n, b01(ctx.rng.bool()))
        }
        4 => format!("with_capacity {}", gen_len(ctx)),
        5 | 6 | 7 => {
            // dirty backend: garbage in the tail of the last word and in 0..3 extra words
            let len = gen_len(ctx);
            let extra = ctx.rng.usize_below(4);
            let nw = len.div_ceil(64) + extra;
            let ws: Vec<u64> = (0..nw).map(|_| ctx.rng.word()).collect();
            ctx.stat("ctor:dirty");
            format!("raw {} {}", fmt_list(ws), len)
        }
        8 => {
            if ctx.rng.bool() {
                let n = gen_len(ctx).min(200);
                format!("collect {}", gen_bits(ctx, n))
            } else {
                match ctx.rng.below(3) {
                    0 => format!("anew {}", gen_len(ctx)),
                    1 => {
                        let n = gen_len(ctx);
                        format!("awith_value {} {}", n, b01(ctx.rng.bool()))
                    }
                    _ => {
                        let n = gen_len(ctx);
                        format!("macro_fill {} {}", ctx.rng.pick(&["empty", "false", "0", "true", "1"]), n)
                    }
                }
            }
        }
        _ => {
            if ctx.rng.bool() {
                let n = gen_len(ctx).min(200);
                format!("macro {}", gen_bits(ctx, n))
            } else {
                format!("macro_lit {}", ctx.rng.pick(MACRO_LITS))
            }
        }
    }
}

fn gen_op(ctx: &mut Ctx, len: usize) -> String {
    match ctx.rng.below(51) {
        0..=5 => format!("push {}", b01(ctx.rng.bool())),
        6..=8 => "pop".into(),
        9..=13 => format!("set {} {}", gen_index(ctx, len), b01(ctx.rng.bool())),
        14..=16 => format!("get {}", gen_index(ctx, len)),
        17 => format!("index {}", gen_index(ctx, len)),
        18 | 19 => {
            // shrink or grow around word boundaries
            let n = match ctx.rng.below(5) {
                0 => len / 2,
                1 => len.saturating_sub(1 + ctx.rng.usize_below(70)),
                2 => len + 1 + ctx.rng.usize_below(130),
                3 => (len / 64 + 1) * 64,
                _ => gen_len(ctx),
            };
            format!("resize {} {}", n, b01(ctx.rng.bool()))
        }
        20 => format!("fill {}", b01(ctx.rng.bool())),
        21 => "flip".into(),
        22 => "reset".into(),
        23 => {
            let n = ctx.rng.usize_below(70);
            format!("extend {}", gen_bits(ctx, n))
        }
        24 | 25 => "iter".into(),
        26 | 27 => "ones".into(),
        29 | 30 => "zeros".into(),
        28 | 31 => {
            let kind = *ctx.rng.pick(&["bits", "abits", "ones", "zeros"]);
            let mid = ctx.rng.usize_below(len + 1);
            let a = *ctx.rng.pick(&[0, mid, mid / 2, len.saturating_sub(1), len, len + 70]);
            format!("it_nth {} {} {}", kind, a, ctx.rng.usize_below(3))
        }
        32 | 33 => "count_ones".into(),
        34 => "count_zeros".into(),
        35 => "eq".into(),
        36 => "clone".into(),
        37 => "swapab".into(),
        38 => format!("conv {}", ctx.rng.pick(&["box", "atomic", "boxatomic"])),
        39 => format!("aset {} {}", gen_index(ctx, len), b01(ctx.rng.bool())),
        40 => format!("aswap {} {}", gen_index(ctx, len), b01(ctx.rng.bool())),
        41 => format!("aget {}", gen_index(ctx, len)),
        42 => format!("afill {}", b01(ctx.rng.bool())),
        43 => "aflip".into(),
        44 => ctx.rng.pick(&["areset", "acount", "aiter"]).to_string(),
        45 => format!("par_fill {}", b01(ctx.rng.bool())),
        46 => ctx.rng.pick(&["par_flip", "par_reset"]).to_string(),
        47 => "par_count_ones".into(),
        48 | 49 => ctx.rng.pick(&["sv_count_ones", "sv_ones", "sv_zeros", "sv_iter", "sv_eq"]).to_string(),
        _ => format!("sv_get {}", gen_index(ctx, len)),
    }
}

/// ops of the type-aware API audit (API_COVERAGE_A.md); unsafe methods only under their contracts
fn gen_api_op(ctx: &mut Ctx, s: &S) -> String {
    let len = s.oa.len();
    match ctx.rng.below(24) {
        0 => format!("conv {}", ctx.rng.pick(&["rawparts", "map", "arawparts", "asmut"])),
        1 => "capacity".into(),
        2 if len > 0 => format!("get_unchecked {}", *ctx.rng.pick(&[0, len - 1, len / 2, (len / 64 * 64).min(len - 1)])),
        3 if len > 0 => {
            let i = *ctx.rng.pick(&[0, len - 1, len / 2, (len / 64 * 64).min(len - 1)]);
            format!("set_unchecked {} {}", i, b01(ctx.rng.bool()))
        }
        4 => "display".into(),
        5 => "into_iter".into(),
        6 => "len2".into(),
        7 => format!("aindex {}", gen_index(ctx, len)),
        8 => format!("apar_fill {}", b01(ctx.rng.bool())),
        9 => ctx.rng.pick(&["apar_flip", "apar_reset", "apar_count"]).to_string(),
        10 | 11 => {
            // any length: shorter, equal, up to the backend, beyond the backend
            let nb = 64 * words_of(&s.a).len();
            let x = ctx.rng.usize_below(200);
            let l = *ctx.rng.pick(&[0, len / 2, len, nb, nb + 1, nb + 64 + x, usize::MAX]);
            format!("{} {}", ctx.rng.pick(&["ones_new", "zeros_new"]), l)
        }
        12 => "sv_atomic".into(),
        13 => format!("svm_set {} {}", gen_index(ctx, len), b01(ctx.rng.bool())),
        14 => format!("svm_aset {} {}", gen_index(ctx, len), b01(ctx.rng.bool())),
        15 => format!("svm_fill {}", b01(ctx.rng.bool())),
        16 => "svm_flip".into(),
        17 | 18 if len > 0 => {
            // rank_hinted under its contract
            let x = ctx.rng.usize_below(len);
            let pos = *ctx.rng.pick(&[0, len - 1, len / 2, (len / 64 * 64).min(len - 1), x]);
            let x = ctx.rng.usize_below(pos / 64 + 1);
            let hp = *ctx.rng.pick(&[0, pos / 64, (pos / 64).saturating_sub(1), x]);
            let hr = s.oa[..hp * 64].iter().filter(|x| **x).count();
            format!("rank_hinted {} {} {}", pos, hp, hr)
        }
        19..=22 => {
            // select_hinted / select_zero_hinted under their contracts
            let zero = ctx.rng.bool();
            let pos: Vec<usize> = (0..len).filter(|&k| s.oa[k] != zero).collect();
            if pos.is_empty() {
                return "len2".into();
            }
            let x = ctx.rng.usize_below(pos.len());
            let r = *ctx.rng.pick(&[0, pos.len() - 1, x]);
            let p = pos[r];
            let x = ctx.rng.usize_below(p + 1);
            let hp = *ctx.rng.pick(&[0, p, p / 64 * 64, p.saturating_sub(1), x]);
            let hr = s.oa[..hp].iter().filter(|x| **x != zero).count();
            format!("{} {} {} {}", if zero { "select_zero_hinted" } else { "select_hinted" }, r, hp, hr)
        }
        _ => "len2".into(),
    }
}

fn fresh() -> S {
    S {
        a: BitVec::new(0),
        b: BitVec::new(0),
        oa: vec![],
        ob: vec![],
    }
}

/// hand-listed cases hitting every model branch, independent of the seed
fn directed(ctx: &mut Ctx) {
    let ctors: Vec<String> = vec![
        "new 0".into(),
        "with_capacity 100".into(),
        "new 64".into(),
        "with_value 64 1".into(),
        "with_value 65 1".into(),
        "with_value 1 1".into(),
        "with_value 128 1".into(),
        "with_value 127 1".into(),
        "new 200".into(),
        format!("raw [{},{}] 0", u64::MAX, u64::MAX),
        format!("raw [{},{}] 1", u64::MAX, u64::MAX),
        format!("raw [{},{}] 64", u64::MAX, u64::MAX),
        format!("raw [{},{},{}] 70", u64::MAX, u64::MAX, 12345u64),
        format!("raw [{},{},{}] 128", 0u64, u64::MAX, u64::MAX),
        "raw [] 0".into(),
        "collect 0110100".into(),
        "macro 1".into(),
        "collect -".into(),
        "macro_fill empty 0".into(),
        "macro_fill true 65".into(),
        "macro_fill 1 64".into(),
        "macro_fill false 70".into(),
        "macro_fill 0 1".into(),
        "macro_lit 0110100".into(),
        "macro_lit 10000000000000000000000000000000000000000000000000000000000000001".into(),
        "anew 65".into(),
        "awith_value 70 1".into(),
        "awith_value 0 1".into(),
    ];
    let obs = [
        "iter", "ones", "zeros", "count_ones", "count_zeros", "par_count_ones", "acount", "aiter",
        "get 0", "get 63", "get 64", "get 69", "get 70", "index 1", "aget 0", "sv_count_ones",
        "sv_ones", "sv_zeros", "sv_iter", "sv_eq", "sv_get 0", "sv_get 64", "sv_get 1000", "pop",
        "ones", "zeros",
    ];
    // type-aware API coverage: observed after the core modifiers only (run-time budget)
    let obs_api = [
        "display", "into_iter", "len2", "capacity", "sv_atomic", "aindex 0", "aindex 64", "aindex 1000",
        "apar_count", "ones_new 0", "ones_new 64", "ones_new 1000", "ones_new 18446744073709551615",
        "zeros_new 1", "zeros_new 65", "zeros_new 1000", "zeros_new 18446744073709551615",
        "get_unchecked 0", "set_unchecked 0 1", "conv rawparts", "conv map",
        "conv arawparts", "conv asmut",
    ];
    let core_mods = ["", "push 1", "pop", "resize 3 1", "flip", "fill 1"];
    for (ci, c) in ctors.iter().enumerate() {
        for m in [
            "", "fill 1", "fill 0", "flip", "reset", "afill 1", "aflip", "areset", "par_fill 1",
            "par_flip", "par_reset", "push 1", "push 0", "pop", "resize 3 1", "resize 64 1",
            "resize 130 1", "resize 131 0", "set 0 1", "set 63 0", "aset 64 1", "aswap 0 1",
            "aswap 1 0", "extend 1111111111111111111111111111111111111111111111111111111111111111111",
            "conv box", "conv atomic", "conv boxatomic", "apar_fill 1", "apar_fill 0", "apar_flip", "apar_reset",
            "svm_set 0 1", "svm_set 64 0", "svm_aset 0 0", "svm_aset 63 1", "svm_fill 1", "svm_fill 0", "svm_flip",
            "set_unchecked 0 1",
        ] {
            let core = core_mods.contains(&m);
            if ci >= 18 && !core {
                continue; // the constructors added by the API audit: core modifiers only
            }
            ctx.case();
            let mut s = fresh();
            exec(ctx, &mut s, c);
            exec(ctx, &mut s, "clone");
            if !m.is_empty() {
                exec(ctx, &mut s, m);
            }
            exec(ctx, &mut s, "eq");
            for o in obs {
                exec(ctx, &mut s, o);
            }
            if core {
                for o in obs_api {
                    exec(ctx, &mut s, o);
                }
            }
            ctx.shape(format!("directed:{}:{}", c.split(' ').next().unwrap(), m));
        }
    }
    // pop then rebuild across a word boundary; shrink, regrow
    ctx.case();
    let mut s = fresh();
    exec(ctx, &mut s, "with_value 66 1");
    for _ in 0..4 {
        exec(ctx, &mut s, "pop");
    }
    for o in ["ones", "zeros", "count_ones", "push 0", "push 0", "push 0", "ones", "zeros", "iter"] {
        exec(ctx, &mut s, o);
    }
    exec(ctx, &mut s, "resize 10 0");
    exec(ctx, &mut s, "resize 70 0");
    exec(ctx, &mut s, "ones");
    exec(ctx, &mut s, "resize 0 0");
    exec(ctx, &mut s, "ones");
    exec(ctx, &mut s, "zeros");
    // the hinted primitives under their contracts, exhaustively on small dirty vectors: every
    // position / rank with the hints "start", "same word", "exact"
    for c in [
        format!("raw [{},{},{}] 130", 0xF0F0_0000_FFFF_0001u64, u64::MAX, 12345u64),
        format!("raw [{},{},{},{}] 129", 0u64, 1u64 << 63, u64::MAX, u64::MAX),
        format!("raw [{}] 64", u64::MAX),
        "with_value 200 1".to_string(),
        "new 70".to_string(),
    ] {
        ctx.case();
        let mut s = fresh();
        exec(ctx, &mut s, &c);
        let len = s.oa.len();
        for pos in (0..len).step_by(7).chain([len - 1, 63.min(len - 1), 64.min(len - 1)]) {
            for hp in [0, pos / 64] {
                let hr = s.oa[..hp * 64].iter().filter(|x| **x).count();
                exec(ctx, &mut s, &format!("rank_hinted {} {} {}", pos, hp, hr));
            }
        }
        for zero in [false, true] {
            let pos: Vec<usize> = (0..len).filter(|&k| s.oa[k] != zero).collect();
            for (r, &p) in pos.iter().enumerate() {
                if r % 5 != 0 && r + 1 != pos.len() {
                    continue;
                }
                for hp in [0, p / 64 * 64, p] {
                    let hr = s.oa[..hp].iter().filter(|x| **x != zero).count();
                    let name = if zero { "select_zero_hinted" } else { "select_hinted" };
                    exec(ctx, &mut s, &format!("{} {} {} {}", name, r, hp, hr));
                }
            }
        }
        ctx.shape(format!("directed-hinted:{}", c.split(' ').next().unwrap()));
    }
}

fn random_case(ctx: &mut Ctx) {
    ctx.case();
    let mut s = fresh();
    let c = gen_ctor(ctx);
    exec(ctx, &mut s, &c);
    let nops = 4 + ctx.rng.usize_below(28);
    let mut kinds = std::collections::BTreeSet::new();
    for _ in 0..nops {
        let len = s.a.len();
        let op = if ctx.rng.chance(1, 5) { gen_api_op(ctx, &s) } else { gen_op(ctx, len) };
        kinds.insert(op.split(' ').next().unwrap().to_string());
        exec(ctx, &mut s, &op);
    }
    let lc = match s.a.len() {
        0 => "0".to_string(),
        n if n % 64 == 0 => "k64".to_string(),
        n if n < 64 => "<64".to_string(),
        n if n < 512 => "<512".to_string(),
        _ => "big".to_string(),
    };
    ctx.shape(format!(
        "{}:{}:{}",
        c.split(' ').next().unwrap(),
        lc,
        kinds.into_iter().collect::<Vec<_>>().join(",")
    ));
}

/// the parallel (rayon) operations only split the work above `RAYON_MIN_LEN` = 100 000 words:
/// vectors longer than that, with a word count that is not a multiple of the threshold
fn large_par_cases(ctx: &mut Ctx) {
    for len in [64 * 150_000 + 17usize, 64 * 100_000, 64 * 250_001 - 1] {
        ctx.case();
        let mut s = fresh();
        for o in [
            format!("with_value {} 1", len),
            "par_count_ones".to_string(),
            "par_flip".to_string(),
            "count_ones".to_string(),
            "par_fill 1".to_string(),
            "count_zeros".to_string(),
            "par_count_ones".to_string(),
            format!("set {} 0", len - 1),
            format!("set {} 0", len / 2),
            "par_count_ones".to_string(),
            "par_reset".to_string(),
            "count_ones".to_string(),
            "apar_fill 1".to_string(),
            "apar_count".to_string(),
            "apar_flip".to_string(),
            "count_ones".to_string(),
            format!("get {}", len - 1),
        ] {
            exec(ctx, &mut s, &o);
        }
        ctx.shape(format!("large-par:{}", len % 64));
    }
}

pub fn run(ctx: &mut Ctx) {
    directed(ctx);
    large_par_cases(ctx);
    let n = if ctx.tier == Tier::Quick { 1500 } else { 30000 };
    for _ in 0..n {
        random_case(ctx);
    }
}

/// re-execute the ops of a replay file
pub fn replay(ctx: &mut Ctx, lines: &[String]) {
    let mut s = fresh();
    for l in lines {
        if l.starts_with("case ") {
            ctx.op(l);
            ctx.reply("case");
            s = fresh();
        } else {
            exec(ctx, &mut s, l);
        }
    }
}
