//! Runner `bitvec`: operation histories on `BitVec` / `AtomicBitVec` (C06, C10 word loops, C14).
//!
//! Register `a` is the vector under test, `b` a saved copy (for `eq`).  After every op the
//! reply carries the result, `len` and the raw backing words of `a`.  The naive oracle is a
//! `Vec<bool>`; additionally, for non-growing mutators, every storage bit at or beyond `len`
//! must be unchanged (C14 frame).
use crate::common::*;
use std::sync::atomic::{AtomicUsize, Ordering};
use sux::bits::{AtomicBitVec, BitVec};
use sux::traits::BitCount;

struct S {
    a: BitVec<Vec<usize>>,
    b: BitVec<Vec<usize>>,
    oa: Vec<bool>,
    ob: Vec<bool>,
}

fn words_of(v: &BitVec<Vec<usize>>) -> Vec<usize> {
    let w: &[usize] = v.as_ref();
    w.to_vec()
}

fn dump(v: &BitVec<Vec<usize>>) -> String {
    format!("{};{}", v.len(), fmt_list(words_of(v)))
}

fn raw_bit(ws: &[usize], k: usize) -> bool {
    (ws[k / 64] >> (k % 64)) & 1 != 0
}

fn with_atomic<T>(
    a: &mut BitVec<Vec<usize>>,
    f: impl FnOnce(&mut AtomicBitVec<Vec<AtomicUsize>>) -> T,
) -> T {
    let v = std::mem::replace(a, BitVec::new(0));
    let mut at: AtomicBitVec<Vec<AtomicUsize>> = v.into();
    let r = catch(|| f(&mut at));
    *a = at.into();
    match r {
        Some(r) => r,
        None => std::panic::resume_unwind(Box::new("atomic op panicked")),
    }
}

/// execute one op on the implementation and the oracle, emit op + reply
fn exec(ctx: &mut Ctx, s: &mut S, op: &str) {
    ctx.op(op);
    let t: Vec<&str> = op.split(' ').collect();
    let num = |i: usize| -> usize { t[i].parse::<usize>().unwrap() };
    let bit = |i: usize| -> bool { t[i] == "1" };
    let bits_arg = |i: usize| -> Vec<bool> {
        if t[i] == "-" {
            vec![]
        } else {
            t[i].chars().map(|c| c == '1').collect()
        }
    };
    let before_words = words_of(&s.a);
    let before_len = s.a.len();
    // (implementation result, oracle result); state updated in place
    let mut grow = false; // op may legitimately change len / allocate
    let (res, ores): (Option<String>, String) = match t[0] {
        "new" => {
            grow = true;
            let n = num(1);
            s.oa = vec![false; n];
            (catch(|| s.a = BitVec::new(n)).map(|_| "ok".into()), "ok".into())
        }
        "with_value" => {
            grow = true;
            let (n, v) = (num(1), bit(2));
            s.oa = vec![v; n];
            (
                catch(|| s.a = BitVec::with_value(n, v)).map(|_| "ok".into()),
                "ok".into(),
            )
        }
        "with_capacity" => {
            grow = true;
            let n = num(1);
            s.oa = vec![];
            (
                catch(|| s.a = BitVec::with_capacity(n)).map(|_| "ok".into()),
                "ok".into(),
            )
        }
        "raw" => {
            grow = true;
            let ws: Vec<usize> = t[1][1..t[1].len() - 1]
                .split(',')
                .filter(|x| !x.is_empty())
                .map(|x| x.parse().unwrap())
                .collect();
            let len = num(2);
            assert!(len <= ws.len() * 64);
            s.oa = (0..len).map(|k| raw_bit(&ws, k)).collect();
            s.a = unsafe { BitVec::from_raw_parts(ws, len) };
            (Some("ok".into()), "ok".into())
        }
        "push" => {
            grow = true;
            let v = bit(1);
            s.oa.push(v);
            (catch(|| s.a.push(v)).map(|_| "ok".into()), "ok".into())
        }
        "pop" => {
            grow = true;
            let o = match s.oa.pop() {
                Some(v) => format!("ok {}", b01(v)),
                None => "ok none".into(),
            };
            (
                catch(|| s.a.pop()).map(|r| match r {
                    Some(v) => format!("ok {}", b01(v)),
                    None => "ok none".into(),
                }),
                o,
            )
        }
        "set" | "aset" => {
            let (i, v) = (num(1), bit(2));
            let o = if i < s.oa.len() {
                s.oa[i] = v;
                "ok".to_string()
            } else {
                "panic".into()
            };
            let r = if t[0] == "set" {
                catch(|| s.a.set(i, v))
            } else {
                catch(|| with_atomic(&mut s.a, |at| at.set(i, v, Ordering::Relaxed)))
            };
            (r.map(|_| "ok".into()), o)
        }
        "aswap" => {
            let (i, v) = (num(1), bit(2));
            let o = if i < s.oa.len() {
                let old = s.oa[i];
                s.oa[i] = v;
                format!("ok {}", b01(old))
            } else {
                "panic".into()
            };
            let r = catch(|| with_atomic(&mut s.a, |at| at.swap(i, v, Ordering::SeqCst)));
            (r.map(|x| format!("ok {}", b01(x))), o)
        }
        "get" | "index" | "aget" => {
            let i = num(1);
            let o = if i < s.oa.len() {
                format!("ok {}", b01(s.oa[i]))
            } else {
                "panic".into()
            };
            let r = match t[0] {
                "get" => catch(|| s.a.get(i)),
                "index" => catch(|| s.a[i]),
                _ => catch(|| with_atomic(&mut s.a, |at| at.get(i, Ordering::Relaxed))),
            };
            (r.map(|x| format!("ok {}", b01(x))), o)
        }
        "resize" => {
            grow = true;
            let (n, v) = (num(1), bit(2));
            s.oa.resize(n, v);
            (catch(|| s.a.resize(n, v)).map(|_| "ok".into()), "ok".into())
        }
        "fill" | "par_fill" | "afill" => {
            let v = bit(1);
            s.oa.iter_mut().for_each(|x| *x = v);
            let r = match t[0] {
                "fill" => catch(|| s.a.fill(v)),
                "par_fill" => catch(|| s.a.par_fill(v)),
                _ => catch(|| with_atomic(&mut s.a, |at| at.fill(v, Ordering::Relaxed))),
            };
            (r.map(|_| "ok".into()), "ok".into())
        }
        "flip" | "par_flip" | "aflip" => {
            s.oa.iter_mut().for_each(|x| *x = !*x);
            let r = match t[0] {
                "flip" => catch(|| s.a.flip()),
                "par_flip" => catch(|| s.a.par_flip()),
                _ => catch(|| with_atomic(&mut s.a, |at| at.flip(Ordering::Relaxed))),
            };
            (r.map(|_| "ok".into()), "ok".into())
        }
        "reset" | "par_reset" | "areset" => {
            s.oa.iter_mut().for_each(|x| *x = false);
            let r = match t[0] {
                "reset" => catch(|| s.a.reset()),
                "par_reset" => catch(|| s.a.par_reset()),
                _ => catch(|| with_atomic(&mut s.a, |at| at.reset(Ordering::Relaxed))),
            };
            (r.map(|_| "ok".into()), "ok".into())
        }
        "extend" => {
            grow = true;
            let bs = bits_arg(1);
            s.oa.extend(bs.iter().copied());
            (
                catch(|| s.a.extend(bs.iter().copied())).map(|_| "ok".into()),
                "ok".into(),
            )
        }
        "collect" => {
            grow = true;
            let bs = bits_arg(1);
            s.oa = bs.clone();
            (
                catch(|| s.a = bs.iter().copied().collect::<BitVec>()).map(|_| "ok".into()),
                "ok".into(),
            )
        }
        "macro" => {
            // the list form of bit_vec!: with_capacity + push
            grow = true;
            let bs = bits_arg(1);
            s.oa = bs.clone();
            (
                catch(|| {
                    let mut v = BitVec::with_capacity(bs.len());
                    for &x in &bs {
                        v.push(x);
                    }
                    s.a = v
                })
                .map(|_| "ok".into()),
                "ok".into(),
            )
        }
        "iter" => (
            catch(|| fmt_bools(s.a.iter())).map(|x| format!("ok {}", x)),
            format!("ok {}", fmt_bools(s.oa.iter().copied())),
        ),
        "aiter" => (
            catch(|| with_atomic(&mut s.a, |at| fmt_bools(at.iter()))).map(|x| format!("ok {}", x)),
            format!("ok {}", fmt_bools(s.oa.iter().copied())),
        ),
        "ones" => (
            catch(|| fmt_list(s.a.iter_ones())).map(|x| format!("ok {}", x)),
            format!(
                "ok {}",
                fmt_list(s.oa.iter().enumerate().filter(|x| *x.1).map(|x| x.0))
            ),
        ),
        "zeros" => (
            catch(|| fmt_list(s.a.iter_zeros())).map(|x| format!("ok {}", x)),
            format!(
                "ok {}",
                fmt_list(s.oa.iter().enumerate().filter(|x| !*x.1).map(|x| x.0))
            ),
        ),
        "count_ones" | "par_count_ones" | "acount" => {
            let o = format!("ok {}", s.oa.iter().filter(|x| **x).count());
            let r = match t[0] {
                "count_ones" => catch(|| s.a.count_ones()),
                "par_count_ones" => catch(|| s.a.par_count_ones()),
                _ => catch(|| with_atomic(&mut s.a, |at| at.count_ones())),
            };
            (r.map(|x| format!("ok {}", x)), o)
        }
        "count_zeros" => (
            catch(|| s.a.count_zeros()).map(|x| format!("ok {}", x)),
            format!("ok {}", s.oa.iter().filter(|x| !**x).count()),
        ),
        "sv_count_ones" | "sv_ones" | "sv_zeros" | "sv_iter" | "sv_get" | "sv_eq" => {
            // the same contents seen through BitVec<&[usize]> over caller-supplied storage that starts
            // at an odd word offset (8 mod 16 bytes) and at an even one: both must answer alike
            let ws = words_of(&s.a);
            let len = s.a.len();
            let run = |want_odd: bool| -> Option<String> {
                // buffer = two guard words, the contents, one guard word; the view starts at the
                // guard-word index whose address is 8 mod 16 (odd) resp. 0 mod 16 (even)
                let mut buf: Vec<usize> = vec![usize::MAX; 2];
                buf.extend_from_slice(&ws);
                buf.push(0x5555_5555_5555_5555);
                let base = buf.as_ptr() as usize;
                let k = if ((base + 16) % 16 == 8) == want_odd { 2 } else { 1 };
                // contents must start at index k: rebuild with k guard words in front
                let mut b2: Vec<usize> = Vec::with_capacity(ws.len() + 4);
                let base2 = b2.as_ptr() as usize;
                let k2 = if ((base2 + 8 * k) % 16 == 8) == want_odd { k } else { k + 1 };
                b2.extend(std::iter::repeat(usize::MAX).take(k2));
                b2.extend_from_slice(&ws);
                b2.push(0x5555_5555_5555_5555);
                debug_assert_eq!(b2.as_ptr() as usize, base2);
                let _ = buf;
                let view: BitVec<&[usize]> =
                    unsafe { BitVec::from_raw_parts(&b2[k2..k2 + ws.len()], len) };
                catch(|| match t[0] {
                    "sv_count_ones" => format!("ok {}", view.count_ones()),
                    "sv_ones" => format!("ok {}", fmt_list(view.iter_ones())),
                    "sv_zeros" => format!("ok {}", fmt_list(view.iter_zeros())),
                    "sv_iter" => format!("ok {}", fmt_bools(view.iter())),
                    "sv_get" => {
                        let i = t[1].parse::<usize>().unwrap();
                        format!("ok {}", b01(view.get(i)))
                    }
                    _ => format!("ok {}", b01(view == s.b)),
                })
            };
            let r1 = run(true);
            let r2 = run(false);
            let o = match t[0] {
                "sv_count_ones" => format!("ok {}", s.oa.iter().filter(|x| **x).count()),
                "sv_ones" => format!("ok {}", fmt_list(s.oa.iter().enumerate().filter(|x| *x.1).map(|x| x.0))),
                "sv_zeros" => format!("ok {}", fmt_list(s.oa.iter().enumerate().filter(|x| !*x.1).map(|x| x.0))),
                "sv_iter" => format!("ok {}", fmt_bools(s.oa.iter().copied())),
                "sv_get" => {
                    let i = t[1].parse::<usize>().unwrap();
                    if i < s.oa.len() { format!("ok {}", b01(s.oa[i])) } else { "panic".into() }
                }
                _ => format!("ok {}", b01(s.oa == s.ob)),
            };
            if r1 != r2 {
                ctx.check_oracle("slice views at odd and even word offsets agree", &format!("{:?} vs {:?}", r1, r2));
            }
            (r1, o)
        }
        "eq" => (
            catch(|| s.a == s.b).map(|x| format!("ok {}", b01(x))),
            format!("ok {}", b01(s.oa == s.ob)),
        ),
        "clone" => {
            s.ob = s.oa.clone();
            (catch(|| s.b = s.a.to_owned()).map(|_| "ok".into()), "ok".into())
        }
        "swapab" => {
            std::mem::swap(&mut s.a, &mut s.b);
            std::mem::swap(&mut s.oa, &mut s.ob);
            grow = true;
            (Some("ok".into()), "ok".into())
        }
        "conv" => {
            let r = catch(|| {
                let v = std::mem::replace(&mut s.a, BitVec::new(0));
                s.a = match t[1] {
                    "box" => {
                        let b: BitVec<Box<[usize]>> = v.into();
                        b.into()
                    }
                    "atomic" => {
                        let at: AtomicBitVec<Vec<AtomicUsize>> = v.into();
                        at.into()
                    }
                    _ => {
                        let b: BitVec<Box<[usize]>> = v.into();
                        let at: AtomicBitVec<Box<[AtomicUsize]>> = b.into();
                        let b: BitVec<Box<[usize]>> = at.into();
                        b.into()
                    }
                };
            });
            (r.map(|_| "ok".into()), "ok".into())
        }
        _ => panic!("unknown op {}", op),
    };
    let res = res.unwrap_or_else(|| "panic".to_string());
    ctx.check_oracle(&ores, &res);
    // abstract state vs oracle
    let ws = words_of(&s.a);
    let len = s.a.len();
    if len != s.oa.len() {
        ctx.check_oracle(&format!("len {}", s.oa.len()), &format!("len {}", len));
    } else if len <= ws.len() * 64 {
        let got: Vec<bool> = (0..len).map(|k| raw_bit(&ws, k)).collect();
        if got != s.oa {
            ctx.check_oracle(
                &format!("bits {}", fmt_bools(s.oa.iter().copied())),
                &format!("bits {}", fmt_bools(got)),
            );
        }
    } else {
        ctx.check_oracle("len <= 64*words", &format!("len {} words {}", len, ws.len()));
    }
    // C14 frame: storage at or beyond len untouched by non-growing ops
    if !grow {
        if ws.len() != before_words.len() || len != before_len {
            ctx.check_oracle("frame: same shape", "frame: shape changed");
        } else {
            for k in len..ws.len() * 64 {
                if raw_bit(&ws, k) != raw_bit(&before_words, k) {
                    ctx.check_oracle(
                        &format!("frame: bit {} unchanged", k),
                        &format!("frame: bit {} changed by {}", k, t[0]),
                    );
                    break;
                }
            }
        }
    }
    ctx.reply(&format!("{};{}", res, dump(&s.a)));
}

const LENS: &[usize] = &[
    0, 0, 1, 2, 31, 62, 63, 64, 65, 66, 127, 128, 129, 191, 192, 193, 255, 256, 257, 320, 500, 511,
    512, 513, 1000,
];

fn gen_len(ctx: &mut Ctx) -> usize {
    if ctx.rng.chance(3, 4) {
        *ctx.rng.pick(LENS)
    } else {
        ctx.rng.usize_below(300)
    }
}

fn gen_bits(ctx: &mut Ctx, n: usize) -> String {
    if n == 0 {
        return "-".into();
    }
    let mode = ctx.rng.below(4);
    (0..n)
        .map(|_| match mode {
            0 => '0',
            1 => '1',
            2 => {
                if ctx.rng.chance(1, 16) {
                    '1'
                } else {
                    '0'
                }
            }
            _ => {
                if ctx.rng.bool() {
                    '1'
                } else {
                    '0'
                }
            }
        })
        .collect()
}

fn gen_index(ctx: &mut Ctx, len: usize) -> usize {
    // mostly valid, boundary seeking; ~10% out of range
    match ctx.rng.below(20) {
        0 => len,
        1 => len + 1 + ctx.rng.usize_below(130),
        2 => 0,
        3 | 4 => len.saturating_sub(1),
        5 => (len / 64) * 64,
        6 => ((len / 64) * 64).saturating_sub(1),
        7 => usize::MAX - ctx.rng.usize_below(2),
        _ => {
            if len == 0 {
                0
            } else {
                ctx.rng.usize_below(len)
            }
        }
    }
}

fn gen_ctor(ctx: &mut Ctx) -> String {
    match ctx.rng.below(10) {
        0 | 1 => format!("new {}", gen_len(ctx)),
        2 | 3 => {
            let n = gen_len(ctx);
            format!("with_value {} {}", n, b01(ctx.rng.bool()))
        }
        4 => format!("with_capacity {}", gen_len(ctx)),
        5 | 6 | 7 => {
            // dirty backend: garbage in the tail of the last word and in 0..3 extra words
            let len = gen_len(ctx);
            let extra = ctx.rng.usize_below(4);
            let nw = len.div_ceil(64) + extra;
            let ws: Vec<u64> = (0..nw).map(|_| ctx.rng.word()).collect();
            ctx.stat("ctor:dirty");
            format!("raw {} {}", fmt_list(ws), len)
        }
        8 => {
            let n = gen_len(ctx).min(200);
            format!("collect {}", gen_bits(ctx, n))
        }
        _ => {
            let n = gen_len(ctx).min(200);
            format!("macro {}", gen_bits(ctx, n))
        }
    }
}

fn gen_op(ctx: &mut Ctx, len: usize) -> String {
    match ctx.rng.below(51) {
        0..=5 => format!("push {}", b01(ctx.rng.bool())),
        6..=8 => "pop".into(),
        9..=13 => format!("set {} {}", gen_index(ctx, len), b01(ctx.rng.bool())),
        14..=16 => format!("get {}", gen_index(ctx, len)),
        17 => format!("index {}", gen_index(ctx, len)),
        18 | 19 => {
            // shrink or grow around word boundaries
            let n = match ctx.rng.below(5) {
                0 => len / 2,
                1 => len.saturating_sub(1 + ctx.rng.usize_below(70)),
                2 => len + 1 + ctx.rng.usize_below(130),
                3 => (len / 64 + 1) * 64,
                _ => gen_len(ctx),
            };
            format!("resize {} {}", n, b01(ctx.rng.bool()))
        }
        20 => format!("fill {}", b01(ctx.rng.bool())),
        21 => "flip".into(),
        22 => "reset".into(),
        23 => {
            let n = ctx.rng.usize_below(70);
            format!("extend {}", gen_bits(ctx, n))
        }
        24 | 25 => "iter".into(),
        26..=28 => "ones".into(),
        29..=31 => "zeros".into(),
        32 | 33 => "count_ones".into(),
        34 => "count_zeros".into(),
        35 => "eq".into(),
        36 => "clone".into(),
        37 => "swapab".into(),
        38 => format!("conv {}", ctx.rng.pick(&["box", "atomic", "boxatomic"])),
        39 => format!("aset {} {}", gen_index(ctx, len), b01(ctx.rng.bool())),
        40 => format!("aswap {} {}", gen_index(ctx, len), b01(ctx.rng.bool())),
        41 => format!("aget {}", gen_index(ctx, len)),
        42 => format!("afill {}", b01(ctx.rng.bool())),
        43 => "aflip".into(),
        44 => ctx.rng.pick(&["areset", "acount", "aiter"]).to_string(),
        45 => format!("par_fill {}", b01(ctx.rng.bool())),
        46 => ctx.rng.pick(&["par_flip", "par_reset"]).to_string(),
        47 => "par_count_ones".into(),
        48 | 49 => ctx.rng.pick(&["sv_count_ones", "sv_ones", "sv_zeros", "sv_iter", "sv_eq"]).to_string(),
        _ => format!("sv_get {}", gen_index(ctx, len)),
    }
}

fn fresh() -> S {
    S {
        a: BitVec::new(0),
        b: BitVec::new(0),
        oa: vec![],
        ob: vec![],
    }
}

/// hand-listed cases hitting every model branch, independent of the seed
fn directed(ctx: &mut Ctx) {
    let ctors: Vec<String> = vec![
        "new 0".into(),
        "with_capacity 100".into(),
        "new 64".into(),
        "with_value 64 1".into(),
        "with_value 65 1".into(),
        "with_value 1 1".into(),
        "with_value 128 1".into(),
        "with_value 127 1".into(),
        "new 200".into(),
        format!("raw [{},{}] 0", u64::MAX, u64::MAX),
        format!("raw [{},{}] 1", u64::MAX, u64::MAX),
        format!("raw [{},{}] 64", u64::MAX, u64::MAX),
        format!("raw [{},{},{}] 70", u64::MAX, u64::MAX, 12345u64),
        format!("raw [{},{},{}] 128", 0u64, u64::MAX, u64::MAX),
        "raw [] 0".into(),
        "collect 0110100".into(),
        "macro 1".into(),
        "collect -".into(),
    ];
    let obs = [
        "iter", "ones", "zeros", "count_ones", "count_zeros", "par_count_ones", "acount", "aiter",
        "get 0", "get 63", "get 64", "get 69", "get 70", "index 1", "aget 0", "sv_count_ones",
        "sv_ones", "sv_zeros", "sv_iter", "sv_eq", "sv_get 0", "sv_get 64", "sv_get 1000", "pop",
        "ones", "zeros",
    ];
    for c in &ctors {
        for m in [
            "", "fill 1", "fill 0", "flip", "reset", "afill 1", "aflip", "areset", "par_fill 1",
            "par_flip", "par_reset", "push 1", "push 0", "pop", "resize 3 1", "resize 64 1",
            "resize 130 1", "resize 131 0", "set 0 1", "set 63 0", "aset 64 1", "aswap 0 1",
            "aswap 1 0", "extend 1111111111111111111111111111111111111111111111111111111111111111111",
            "conv box", "conv atomic", "conv boxatomic",
        ] {
            ctx.case();
            let mut s = fresh();
            exec(ctx, &mut s, c);
            exec(ctx, &mut s, "clone");
            if !m.is_empty() {
                exec(ctx, &mut s, m);
            }
            exec(ctx, &mut s, "eq");
            for o in obs {
                exec(ctx, &mut s, o);
            }
            ctx.shape(format!("directed:{}:{}", c.split(' ').next().unwrap(), m));
        }
    }
    // pop then rebuild across a word boundary; shrink, regrow
    ctx.case();
    let mut s = fresh();
    exec(ctx, &mut s, "with_value 66 1");
    for _ in 0..4 {
        exec(ctx, &mut s, "pop");
    }
    for o in ["ones", "zeros", "count_ones", "push 0", "push 0", "push 0", "ones", "zeros", "iter"] {
        exec(ctx, &mut s, o);
    }
    exec(ctx, &mut s, "resize 10 0");
    exec(ctx, &mut s, "resize 70 0");
    exec(ctx, &mut s, "ones");
    exec(ctx, &mut s, "resize 0 0");
    exec(ctx, &mut s, "ones");
    exec(ctx, &mut s, "zeros");
}

fn random_case(ctx: &mut Ctx) {
    ctx.case();
    let mut s = fresh();
    let c = gen_ctor(ctx);
    exec(ctx, &mut s, &c);
    let nops = 4 + ctx.rng.usize_below(28);
    let mut kinds = std::collections::BTreeSet::new();
    for _ in 0..nops {
        let len = s.a.len();
        let op = gen_op(ctx, len);
        kinds.insert(op.split(' ').next().unwrap().to_string());
        exec(ctx, &mut s, &op);
    }
    let lc = match s.a.len() {
        0 => "0".to_string(),
        n if n % 64 == 0 => "k64".to_string(),
        n if n < 64 => "<64".to_string(),
        n if n < 512 => "<512".to_string(),
        _ => "big".to_string(),
    };
    ctx.shape(format!(
        "{}:{}:{}",
        c.split(' ').next().unwrap(),
        lc,
        kinds.into_iter().collect::<Vec<_>>().join(",")
    ));
}

pub fn run(ctx: &mut Ctx) {
    directed(ctx);
    let n = if ctx.tier == Tier::Quick { 1500 } else { 30000 };
    for _ in 0..n {
        random_case(ctx);
    }
}

/// re-execute the ops of a replay file
pub fn replay(ctx: &mut Ctx, lines: &[String]) {
    let mut s = fresh();
    for l in lines {
        if l.starts_with("case ") {
            ctx.op(l);
            ctx.reply("case");
            s = fresh();
        } else {
            exec(ctx, &mut s, l);
        }
    }
}
