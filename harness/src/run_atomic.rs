//! Runner `atomic` (C13): real threads on real `AtomicBitFieldVec<W>` / `AtomicBitVec` /
//! `EliasFanoConcurrentBuilder`, serialised by a token-passing scheduler hooked into
//! `sux::verif::sched_point` (called immediately before every atomic memory operation).
//!
//! A case declares vectors (`vec …`) and thread programs (`thread t …`); then every explored
//! interleaving is one pair of lines: `plan ids|idx […]` (written before the run: the decisions
//! the controller will follow) and `schedule [t0,t1,…]` (written after: the thread ids in the order
//! their sched_points were actually granted; this is what the Lean machine replays).  Reply of a
//! schedule: granted sites, final backing words, values returned by get/swap calls, thread
//! statuses, failed compare-exchange counts.
//!
//! Naive oracle (plain Rust, no interleavings): for writers of distinct elements the final memory
//! is the sequential result and every untouched bit is unchanged; a `get` of an element only the
//! reading thread wrote returns that value; swaps on one bit must be explainable by some
//! sequential order; the concurrent Elias–Fano builder must produce what `EliasFanoBuilder` does.
use crate::common::*;
use common_traits::IntoAtomic;
use std::cell::RefCell;
use std::sync::atomic::{AtomicUsize, Ordering};
use std::sync::{Arc, Condvar, Mutex};
use std::time::Duration;
use sux::prelude::*;

// ------------------------------------------------------------------------------------ programs

#[derive(Clone, Copy, PartialEq, Eq, Debug)]
enum K {
    Set,
    SetU,
    Get,
    GetU,
    BSet,
    BSwap,
    BGet,
    EfSet,
}

#[derive(Clone, Debug)]
struct POp {
    k: K,
    vec: usize,
    i: usize,
    x: u128,
}

impl POp {
    fn line(&self, t: usize) -> String {
        match self.k {
            K::Set => format!("thread {} set {} {} {}", t, self.vec, self.i, self.x),
            K::SetU => format!("thread {} setu {} {} {}", t, self.vec, self.i, self.x),
            K::Get => format!("thread {} get {} {}", t, self.vec, self.i),
            K::GetU => format!("thread {} getu {} {}", t, self.vec, self.i),
            K::BSet => format!("thread {} bset {} {} {}", t, self.vec, self.i, self.x),
            K::BSwap => format!("thread {} bswap {} {} {}", t, self.vec, self.i, self.x),
            K::BGet => format!("thread {} bget {} {}", t, self.vec, self.i),
            K::EfSet => format!("thread {} efset {} {}", t, self.i, self.x),
        }
    }
}

#[derive(Clone, Debug)]
enum VDecl {
    Abfv {
        w: usize,
        bw: usize,
        len: usize,
        words: Vec<u128>,
    },
    Abv {
        len: usize,
        words: Vec<u128>,
    },
    Ef {
        n: usize,
        u: usize,
    },
}

impl VDecl {
    fn line(&self) -> String {
        match self {
            VDecl::Abfv { w, bw, len, words } => {
                format!("vec abfv {} {} {} {}", w, bw, len, fmt_list(words.iter()))
            }
            VDecl::Abv { len, words } => format!("vec abv {} {}", len, fmt_list(words.iter())),
            VDecl::Ef { n, u } => format!("vec ef {} {}", n, u),
        }
    }
}

#[derive(Clone, Debug, Default)]
struct Case {
    vecs: Vec<VDecl>,
    progs: Vec<Vec<POp>>,
    /// writers may touch the same element with different values: no sequential oracle
    conflict: bool,
}

// ------------------------------------------------------------------------------------ real objects

trait SharedVec: Sync + Send {
    fn exec(&self, op: &POp) -> Option<u128>;
    fn words(&self) -> Vec<u128>;
}

macro_rules! abfv_impl {
    ($W:ty) => {
        impl SharedVec for AtomicBitFieldVec<$W, Vec<<$W as IntoAtomic>::AtomicType>> {
            fn exec(&self, op: &POp) -> Option<u128> {
                match op.k {
                    K::Set => {
                        self.set_atomic(op.i, op.x as $W, Ordering::Relaxed);
                        None
                    }
                    K::SetU => {
                        unsafe { self.set_atomic_unchecked(op.i, op.x as $W, Ordering::Relaxed) };
                        None
                    }
                    K::Get => Some(self.get_atomic(op.i, Ordering::Relaxed) as u128),
                    K::GetU => {
                        Some(unsafe { self.get_atomic_unchecked(op.i, Ordering::Relaxed) } as u128)
                    }
                    _ => panic!("harness: bit op on a bit-field vector"),
                }
            }
            fn words(&self) -> Vec<u128> {
                self.as_slice()
                    .iter()
                    .map(|a| a.load(Ordering::SeqCst) as u128)
                    .collect()
            }
        }
    };
}
abfv_impl!(u8);
abfv_impl!(u16);
abfv_impl!(u32);
abfv_impl!(u64);
abfv_impl!(usize);

struct Abv(AtomicBitVec<Vec<AtomicUsize>>);

impl SharedVec for Abv {
    fn exec(&self, op: &POp) -> Option<u128> {
        match op.k {
            K::BSet => {
                self.0.set(op.i, op.x == 1, Ordering::Relaxed);
                None
            }
            K::BSwap => Some(self.0.swap(op.i, op.x == 1, Ordering::Relaxed) as u128),
            K::BGet => Some(self.0.get(op.i, Ordering::Relaxed) as u128),
            _ => panic!("harness: field op on a bit vector"),
        }
    }
    fn words(&self) -> Vec<u128> {
        let ws: &[AtomicUsize] = self.0.as_ref();
        ws.iter().map(|a| a.load(Ordering::SeqCst) as u128).collect()
    }
}

macro_rules! mk_abfv {
    ($W:ty, $words:expr, $bw:expr, $len:expr) => {{
        let bits: Vec<<$W as IntoAtomic>::AtomicType> = $words
            .iter()
            .map(|&x| <$W as IntoAtomic>::AtomicType::new(x as $W))
            .collect();
        let v: AtomicBitFieldVec<$W, Vec<<$W as IntoAtomic>::AtomicType>> =
            unsafe { AtomicBitFieldVec::from_raw_parts(bits, $bw, $len) };
        Box::new(v) as Box<dyn SharedVec>
    }};
}

enum Objs {
    Vecs(Vec<Box<dyn SharedVec>>),
    Ef(EliasFanoConcurrentBuilder),
}

/// `use64`: a 64-bit vector is an `AtomicBitFieldVec<u64>` instead of `<usize>`
fn make_objs(case: &Case, use64: bool) -> Objs {
    if let Some(VDecl::Ef { n, u }) = case.vecs.first() {
        return Objs::Ef(EliasFanoConcurrentBuilder::new(*n, *u));
    }
    let mut v: Vec<Box<dyn SharedVec>> = vec![];
    for d in &case.vecs {
        match d {
            VDecl::Abfv { w, bw, len, words } => v.push(match (*w, use64) {
                (8, _) => mk_abfv!(u8, words, *bw, *len),
                (16, _) => mk_abfv!(u16, words, *bw, *len),
                (32, _) => mk_abfv!(u32, words, *bw, *len),
                (64, true) => mk_abfv!(u64, words, *bw, *len),
                (64, false) => mk_abfv!(usize, words, *bw, *len),
                _ => panic!("harness: unsupported word size"),
            }),
            VDecl::Abv { len, words } => {
                let bits: Vec<AtomicUsize> =
                    words.iter().map(|&x| AtomicUsize::new(x as usize)).collect();
                v.push(Box::new(Abv(unsafe {
                    AtomicBitVec::from_raw_parts(bits, *len)
                })))
            }
            VDecl::Ef { .. } => panic!("harness: ef must be the only vector"),
        }
    }
    Objs::Vecs(v)
}

fn exec_op(objs: &Objs, op: &POp) -> Option<u128> {
    match objs {
        Objs::Vecs(v) => v[op.vec].exec(op),
        Objs::Ef(b) => {
            unsafe { b.set(op.i, op.x as usize) };
            None
        }
    }
}

/// (l, low words, high len, high words) of a built Elias–Fano structure
fn ef_parts(ef: &EliasFano) -> (usize, Vec<u128>, usize, Vec<u128>) {
    let (_n, _u, l, low, high) = ef.verif_parts();
    let hw: &[usize] = high.as_ref();
    (
        l,
        low.as_slice().iter().map(|&x| x as u128).collect(),
        high.len(),
        hw.iter().map(|&x| x as u128).collect(),
    )
}

// ------------------------------------------------------------------------------------ scheduler

struct State {
    /// thread t is blocked inside the hook, about to perform the atomic operation of this site
    waiting: Vec<Option<u32>>,
    finished: Vec<bool>,
    /// thread that has been granted its next step and has not yet taken it
    turn: Option<usize>,
}

struct Shared {
    m: Mutex<State>,
    cv: Condvar,
}

thread_local! {
    static TLS: RefCell<Option<(usize, Arc<Shared>)>> = const { RefCell::new(None) };
}

/// the callback installed with `set_sched_hook`: threads not registered with a scheduler
/// (the controller itself) pass through
fn hook(site: u32) {
    let reg = TLS.with(|c| c.borrow().clone());
    if let Some((t, sh)) = reg {
        let mut g = sh.m.lock().unwrap();
        g.waiting[t] = Some(site);
        sh.cv.notify_all();
        while g.turn != Some(t) {
            g = sh.cv.wait(g).unwrap();
        }
        g.turn = None;
        g.waiting[t] = None;
    }
}

fn sched_fail(msg: &str) -> ! {
    eprintln!("run_atomic: scheduler failure: {}", msg);
    sux::verif::set_sched_hook(None);
    std::process::exit(3);
}

#[derive(Clone, Debug)]
enum Plan {
    /// thread ids to grant, step by step (smallest enabled thread once the list is exhausted)
    Ids(Vec<usize>),
    /// step k grants enabled[idx[k] % enabled.len()]
    Idx(Vec<u64>),
}

impl Plan {
    fn line(&self) -> String {
        match self {
            Plan::Ids(v) => format!("plan ids {}", fmt_list(v.iter())),
            Plan::Idx(v) => format!("plan idx {}", fmt_list(v.iter())),
        }
    }
}

struct RunOut {
    grants: Vec<(usize, u32)>,
    /// enabled thread ids at each step (sorted)
    enabled: Vec<Vec<usize>>,
    res: Vec<Vec<u128>>,
    st: Vec<char>,
    words: Vec<u128>,
    ef: Option<(usize, Vec<u128>, usize, Vec<u128>)>,
    diverged: bool,
}

const MAX_STEPS: usize = 100_000;

fn run_once(case: &Case, plan: &Plan, use64: bool) -> RunOut {
    let n = case.progs.len();
    let objs = make_objs(case, use64);
    let shared = Arc::new(Shared {
        m: Mutex::new(State {
            waiting: vec![None; n],
            finished: vec![false; n],
            turn: None,
        }),
        cv: Condvar::new(),
    });
    let mut grants = vec![];
    let mut enabled_log = vec![];
    let mut diverged = false;
    let mut results: Vec<(Vec<u128>, char)> = vec![];
    std::thread::scope(|s| {
        let mut handles = vec![];
        for t in 0..n {
            let sh = shared.clone();
            let prog = &case.progs[t];
            let objs = &objs;
            handles.push(s.spawn(move || {
                TLS.with(|c| *c.borrow_mut() = Some((t, sh.clone())));
                let mut res = vec![];
                let mut st = 'd';
                for op in prog {
                    match catch(|| exec_op(objs, op)) {
                        Some(Some(v)) => res.push(v),
                        Some(None) => {}
                        None => {
                            st = 'p';
                            break;
                        }
                    }
                }
                TLS.with(|c| *c.borrow_mut() = None);
                let mut g = sh.m.lock().unwrap();
                g.finished[t] = true;
                sh.cv.notify_all();
                drop(g);
                (res, st)
            }));
        }
        // controller
        let mut g = shared.m.lock().unwrap();
        let mut k = 0usize;
        loop {
            // quiescence: every thread is blocked in the hook or has finished
            loop {
                let quiet = g.turn.is_none()
                    && (0..n).all(|t| g.finished[t] || g.waiting[t].is_some());
                if quiet {
                    break;
                }
                let (g2, to) = shared.cv.wait_timeout(g, Duration::from_secs(600)).unwrap();
                g = g2;
                if to.timed_out() {
                    sched_fail("threads did not quiesce within 600 s");
                }
            }
            let en: Vec<usize> = (0..n).filter(|&t| !g.finished[t]).collect();
            if en.is_empty() {
                break;
            }
            let t = match plan {
                Plan::Ids(v) => {
                    if k < v.len() {
                        if en.contains(&v[k]) {
                            v[k]
                        } else {
                            diverged = true;
                            en[0]
                        }
                    } else {
                        en[0]
                    }
                }
                Plan::Idx(v) => {
                    if k < v.len() {
                        en[(v[k] % en.len() as u64) as usize]
                    } else {
                        en[0]
                    }
                }
            };
            grants.push((t, g.waiting[t].unwrap()));
            enabled_log.push(en);
            k += 1;
            if k > MAX_STEPS {
                sched_fail("step bound exceeded");
            }
            g.turn = Some(t);
            shared.cv.notify_all();
        }
        drop(g);
        for h in handles {
            results.push(h.join().unwrap_or_else(|_| sched_fail("worker thread died")));
        }
    });
    let (words, ef) = match objs {
        Objs::Vecs(v) => (v.iter().flat_map(|x| x.words()).collect(), None),
        Objs::Ef(b) => {
            let ef = b.build();
            let p = ef_parts(&ef);
            let mut w = p.1.clone();
            w.extend(p.3.iter().copied());
            (w, Some(p))
        }
    };
    RunOut {
        grants,
        enabled: enabled_log,
        res: results.iter().map(|r| r.0.clone()).collect(),
        st: results.iter().map(|r| r.1).collect(),
        words,
        ef,
        diverged,
    }
}

// ------------------------------------------------------------------------------------ naive oracle

/// flat bit-level memory of a case: (word size, words, base word of every vector)
fn flat_memory(case: &Case) -> (usize, Vec<u128>, Vec<usize>) {
    let mut w = 64;
    let mut words = vec![];
    let mut bases = vec![];
    for d in &case.vecs {
        bases.push(words.len());
        match d {
            VDecl::Abfv { w: ww, words: ws, .. } => {
                w = *ww;
                words.extend(ws.iter().copied())
            }
            VDecl::Abv { words: ws, .. } => words.extend(ws.iter().copied()),
            VDecl::Ef { n, u } => {
                let (l, lw, _hl, hw) = ef_shape(*n, *u);
                let _ = l;
                words.extend(std::iter::repeat(0).take(lw));
                bases.push(words.len());
                words.extend(std::iter::repeat(0).take(hw));
            }
        }
    }
    (w, words, bases)
}

/// naive (l, low words, high len, high words) of `EliasFanoConcurrentBuilder::new(n, u)`
fn ef_shape(n: usize, u: usize) -> (usize, usize, usize, usize) {
    let mut l = 0;
    if n > 0 && u >= n {
        let q = (u / n) as u128; // 128 bits: `q >> 64` must be 0, not an overflow, when n = 1 and u >= 2^63
        while (q >> (l + 1)) > 0 {
            l += 1;
        }
    }
    let lw = std::cmp::max(1, (n * l + 63) / 64);
    let hl = n + (u >> l) + 1;
    (l, lw, hl, (hl + 63) / 64)
}

fn put_bits(words: &mut [u128], w: usize, pos: usize, width: usize, v: u128) {
    for j in 0..width {
        let k = pos + j;
        let bit = (v >> j) & 1;
        words[k / w] = (words[k / w] & !(1u128 << (k % w))) | (bit << (k % w));
    }
}

fn get_bits(words: &[u128], w: usize, pos: usize, width: usize) -> u128 {
    let mut v = 0;
    for j in 0..width {
        let k = pos + j;
        v |= ((words[k / w] >> (k % w)) & 1) << j;
    }
    v
}

/// what one op writes: (bit position in the flat memory, width, value), or `Err(())` if the
/// checked call must panic; `Ok(None)` for readers
#[allow(clippy::type_complexity)]
fn write_of(case: &Case, bases: &[usize], w: usize, op: &POp) -> Result<Vec<(usize, usize, u128)>, ()> {
    match op.k {
        K::Set | K::SetU | K::Get | K::GetU => {
            if let VDecl::Abfv { bw, len, .. } = &case.vecs[op.vec] {
                let chk = op.k == K::Set || op.k == K::Get;
                if chk && op.i >= *len {
                    return Err(());
                }
                if op.k == K::Set && *bw < 128 && op.x >> *bw != 0 {
                    return Err(());
                }
                if op.k == K::Get || op.k == K::GetU {
                    return Ok(vec![]);
                }
                Ok(vec![(bases[op.vec] * w + op.i * bw, *bw, op.x)])
            } else {
                panic!("harness: field op on a non-field vector")
            }
        }
        K::BSet | K::BSwap | K::BGet => {
            if let VDecl::Abv { len, .. } = &case.vecs[op.vec] {
                if op.i >= *len {
                    return Err(());
                }
                if op.k == K::BGet {
                    return Ok(vec![]);
                }
                Ok(vec![(bases[op.vec] * w + op.i, 1, op.x)])
            } else {
                panic!("harness: bit op on a non-bit vector")
            }
        }
        K::EfSet => {
            if let VDecl::Ef { n, u } = &case.vecs[0] {
                let (l, _lw, hl, _hw) = ef_shape(*n, *u);
                let hi = (op.x as usize >> l) + op.i;
                if hi >= hl {
                    return Err(());
                }
                Ok(vec![
                    (op.i * l, l, op.x & ((1u128 << l) - 1)),
                    (bases[1] * w + hi, 1, 1),
                ])
            } else {
                panic!("harness: efset without ef")
            }
        }
    }
}

/// is there an order of the swap/set calls on one bit (respecting each thread's program order)
/// that explains the returned values and the final bit?
fn linearizable(init: bool, fin: bool, calls: &[Vec<(bool, Option<bool>)>]) -> bool {
    fn go(cur: bool, fin: bool, calls: &[Vec<(bool, Option<bool>)>], pos: &mut Vec<usize>) -> bool {
        if (0..calls.len()).all(|t| pos[t] == calls[t].len()) {
            return cur == fin;
        }
        for t in 0..calls.len() {
            if pos[t] < calls[t].len() {
                let (wr, ret) = calls[t][pos[t]];
                if ret.is_none() || ret == Some(cur) {
                    pos[t] += 1;
                    let ok = go(wr, fin, calls, pos);
                    pos[t] -= 1;
                    if ok {
                        return true;
                    }
                }
            }
        }
        false
    }
    go(init, fin, calls, &mut vec![0; calls.len()])
}

fn oracle(ctx: &mut Ctx, case: &Case, out: &RunOut) {
    let (w, init, bases) = flat_memory(case);
    let n = case.progs.len();
    // expected statuses + the writes of every thread up to its first panicking call
    let mut exp_st = vec![];
    let mut writes: Vec<Vec<(usize, usize, u128, usize)>> = vec![]; // (pos, width, value, op index)
    let mut live_ops: Vec<usize> = vec![];
    for t in 0..n {
        let mut st = 'd';
        let mut ws = vec![];
        let mut live = case.progs[t].len();
        for (j, op) in case.progs[t].iter().enumerate() {
            match write_of(case, &bases, w, op) {
                Ok(v) => ws.extend(v.into_iter().map(|(p, wd, x)| (p, wd, x, j))),
                Err(()) => {
                    st = 'p';
                    live = j;
                    break;
                }
            }
        }
        exp_st.push(st);
        writes.push(ws);
        live_ops.push(live);
    }
    let got_st: String = out.st.iter().collect();
    let exp_st: String = exp_st.iter().collect();
    ctx.check_oracle(&format!("st {}", exp_st), &format!("st {}", got_st));
    if out.words.len() != init.len() {
        ctx.check_oracle(
            &format!("words.len {}", init.len()),
            &format!("words.len {}", out.words.len()),
        );
        return;
    }
    if case.conflict {
        ctx.stat("oracle:conflicting-writers");
    }
    // bits written by calls with different values (or by swaps) are judged by the
    // linearizability search; all others by the sequential result
    let nbits = init.len() * w;
    let mut writers: Vec<Vec<(usize, u128)>> = vec![vec![]; nbits]; // per bit: (thread, bit value)
    for t in 0..n {
        for &(p, wd, x, _) in &writes[t] {
            for j in 0..wd {
                writers[p + j].push((t, (x >> j) & 1));
            }
        }
    }
    let mut exp = init.clone();
    let mut contested = vec![false; nbits];
    for k in 0..nbits {
        if writers[k].is_empty() {
            continue;
        }
        let v0 = writers[k][0].1;
        if writers[k].iter().all(|x| x.1 == v0) {
            put_bits(&mut exp, w, k, 1, v0);
        } else {
            contested[k] = true;
        }
    }
    let mut got = out.words.clone();
    for k in 0..nbits {
        if contested[k] {
            put_bits(&mut exp, w, k, 1, 0);
            put_bits(&mut got, w, k, 1, 0);
        }
    }
    ctx.check_oracle(
        &format!("words {}", fmt_list(exp.iter())),
        &format!("words {}", fmt_list(got.iter())),
    );
    // contested bits: only single-bit calls may contest (generator), judge by linearizability;
    // also every bit with a swap on it
    let mut res_ptr = vec![0usize; n];
    let mut per_bit: std::collections::BTreeMap<usize, Vec<Vec<(bool, Option<bool>)>>> =
        Default::default();
    for t in 0..n {
        for (j, op) in case.progs[t].iter().enumerate() {
            if j >= live_ops[t] {
                break;
            }
            let returns = matches!(op.k, K::Get | K::GetU | K::BGet | K::BSwap);
            let ret = if returns {
                let r = <[u128]>::get(&out.res[t], res_ptr[t]).copied();
                res_ptr[t] += 1;
                r
            } else {
                None
            };
            match op.k {
                K::BSet | K::BSwap => {
                    let k = bases[op.vec] * w + op.i;
                    let e = per_bit.entry(k).or_insert_with(|| vec![vec![]; n]);
                    e[t].push((
                        op.x == 1,
                        if op.k == K::BSwap {
                            Some(ret == Some(1))
                        } else {
                            None
                        },
                    ));
                }
                K::Get | K::GetU => {
                    // element written by this thread only (before the get), or by nobody
                    if let VDecl::Abfv { bw, .. } = &case.vecs[op.vec] {
                        let p = bases[op.vec] * w + op.i * bw;
                        let others = (0..n).any(|t2| {
                            t2 != t
                                && writes[t2]
                                    .iter()
                                    .any(|&(p2, wd2, _, _)| p2 < p + bw && p < p2 + wd2)
                        });
                        if !others {
                            let mine: Vec<_> = writes[t]
                                .iter()
                                .filter(|&&(p2, wd2, _, _)| p2 < p + bw && p < p2 + wd2)
                                .collect();
                            let expv = if mine.is_empty() {
                                Some(get_bits(&init, w, p, *bw))
                            } else if mine.len() == 1 && mine[0].0 == p {
                                if mine[0].3 < j {
                                    Some(mine[0].2)
                                } else {
                                    Some(get_bits(&init, w, p, *bw))
                                }
                            } else {
                                None
                            };
                            if let Some(e) = expv {
                                ctx.check_oracle(
                                    &format!("get t{} #{} = {}", t, j, e),
                                    &format!("get t{} #{} = {:?}", t, j, ret.map(|x| x as i128).unwrap_or(-1)),
                                );
                                ctx.stat("oracle:get-checked");
                            }
                        }
                    }
                }
                _ => {}
            }
        }
        if res_ptr[t] != out.res[t].len() {
            ctx.check_oracle(
                &format!("t{} returns {} values", t, res_ptr[t]),
                &format!("t{} returns {} values", t, out.res[t].len()),
            );
        }
    }
    for (k, calls) in per_bit {
        let i0 = get_bits(&init, w, k, 1) == 1;
        let f0 = get_bits(&out.words, w, k, 1) == 1;
        if !linearizable(i0, f0, &calls) {
            ctx.check_oracle(
                "bit calls explained by a sequential order",
                &format!("bit {}: init {} final {} calls {:?}: no sequential order", k, i0, f0, calls),
            );
        }
        ctx.stat("oracle:bit-linearizability");
    }
    // concurrent Elias–Fano builder vs the sequential builder on the same values
    if let (Some(VDecl::Ef { n: en, u }), Some(parts)) = (case.vecs.first(), &out.ef) {
        let mut xs: Vec<Option<usize>> = vec![None; *en];
        for t in 0..n {
            for op in &case.progs[t] {
                xs[op.i] = Some(op.x as usize);
            }
        }
        if xs.iter().all(|x| x.is_some()) {
            let xs: Vec<usize> = xs.into_iter().map(|x| x.unwrap()).collect();
            let seq = catch(|| {
                let mut b = EliasFanoBuilder::new(*en, *u);
                for &x in &xs {
                    b.push(x);
                }
                ef_parts(&b.build())
            });
            match seq {
                Some(sp) => {
                    ctx.check_oracle(&format!("ef {:?}", sp), &format!("ef {:?}", parts));
                    ctx.stat("oracle:ef-vs-sequential");
                }
                None => ctx.stat("oracle:ef-sequential-panicked"),
            }
        }
    }
}

// ------------------------------------------------------------------------------------ emission

fn emit_decls(ctx: &mut Ctx, case: &Case) {
    ctx.case();
    for (k, d) in case.vecs.iter().enumerate() {
        ctx.op(&d.line());
        match d {
            VDecl::Ef { n, u } => {
                // shape of the real builder
                let r = catch(|| ef_parts(&EliasFanoConcurrentBuilder::new(*n, *u).build()));
                match r {
                    Some((l, low, hl, hw)) => {
                        let e = ef_shape(*n, *u);
                        ctx.check_oracle(
                            &format!("{:?}", e),
                            &format!("{:?}", (l, low.len(), hl, hw.len())),
                        );
                        ctx.reply(&format!("ok l={} lw={} hl={} hw={}", l, low.len(), hl, hw.len()))
                    }
                    None => ctx.reply("panic"),
                }
            }
            _ => ctx.reply(&format!("ok {}", k)),
        }
    }
    for (t, p) in case.progs.iter().enumerate() {
        if p.is_empty() {
            ctx.op(&format!("thread {} none", t));
            ctx.reply("ok");
        }
        for op in p {
            ctx.op(&op.line(t));
            ctx.reply("ok");
        }
    }
}

fn fails_of(grants: &[(usize, u32)], n: usize) -> Vec<usize> {
    // in a thread's own site sequence a CAS site immediately repeated is a failed attempt
    let mut last: Vec<Option<u32>> = vec![None; n];
    let mut f = vec![0; n];
    for &(t, s) in grants {
        if last[t] == Some(s) && (s == 11 || s == 21 || s == 23) {
            f[t] += 1;
        }
        last[t] = Some(s);
    }
    f
}

/// run one interleaving: `plan` line, the run, `schedule` line + reply, oracle
fn emit_schedule(ctx: &mut Ctx, case: &Case, plan: &Plan, use64: bool) -> RunOut {
    ctx.op(&plan.line());
    ctx.reply("ok");
    let out = run_once(case, plan, use64);
    ctx.op(&format!(
        "schedule {}",
        fmt_list(out.grants.iter().map(|g| g.0))
    ));
    let res = format!(
        "[{}]",
        out.res
            .iter()
            .map(|r| fmt_list(r.iter()))
            .collect::<Vec<_>>()
            .join(",")
    );
    let st: String = out.st.iter().collect();
    ctx.reply(&format!(
        "ok sites={};words={};res={};st={};fail={}",
        fmt_list(out.grants.iter().map(|g| g.1)),
        fmt_list(out.words.iter()),
        res,
        st,
        fmt_list(fails_of(&out.grants, case.progs.len()))
    ));
    if out.diverged {
        ctx.check_oracle("plan followed", "plan named a thread that was not enabled");
    }
    oracle(ctx, case, &out);
    ctx.stat("schedules");
    let nf: usize = fails_of(&out.grants, case.progs.len()).iter().sum();
    if nf > 0 {
        ctx.stat("schedules:with-failed-cas");
    }
    for g in &out.grants {
        ctx.stat(&format!("site:{}", g.1));
    }
    out
}

/// all interleavings of a case by depth-first search over decision lists; returns their number
fn exhaustive(ctx: &mut Ctx, case: &Case, use64: bool, cap: usize) -> usize {
    emit_decls(ctx, case);
    let mut prefix: Vec<usize> = vec![];
    let mut count = 0;
    loop {
        let out = emit_schedule(ctx, case, &Plan::Ids(prefix.clone()), use64);
        count += 1;
        if count >= cap {
            ctx.stat("exhaustive:capped");
            break;
        }
        // backtrack: last step with a larger enabled thread not yet taken
        let full: Vec<usize> = out.grants.iter().map(|g| g.0).collect();
        let mut k = full.len();
        let mut next = None;
        while k > 0 {
            k -= 1;
            if let Some(&alt) = out.enabled[k].iter().find(|&&t| t > full[k]) {
                let mut p = full[..k].to_vec();
                p.push(alt);
                next = Some(p);
                break;
            }
        }
        match next {
            Some(p) => prefix = p,
            None => break,
        }
    }
    count
}

/// the sequential builder on the real code vs the model's `efSeqBuild`
fn emit_efseq(ctx: &mut Ctx, n: usize, u: usize, xs: &[usize]) {
    ctx.op(&format!("efseq {} {} {}", n, u, fmt_list(xs.iter())));
    let r = catch(|| {
        let mut b = EliasFanoBuilder::new(n, u);
        for &x in xs {
            b.push(x);
        }
        ef_parts(&b.build())
    });
    // naive expectation: panics iff not exactly n monotone values <= u
    let ok = xs.len() == n && xs.iter().all(|&x| x <= u) && xs.windows(2).all(|w| w[0] <= w[1]);
    match r {
        Some((l, low, hl, high)) => {
            ctx.check_oracle(if ok { "efseq ok" } else { "efseq panic" }, "efseq ok");
            ctx.reply(&format!(
                "ok l={} low={} hl={} high={}",
                l,
                fmt_list(low.iter()),
                hl,
                fmt_list(high.iter())
            ))
        }
        None => {
            ctx.check_oracle(if ok { "efseq ok" } else { "efseq panic" }, "efseq panic");
            ctx.reply("panic")
        }
    }
}

// ------------------------------------------------------------------------------------ generators

fn mask(bw: usize) -> u128 {
    if bw >= 128 {
        u128::MAX
    } else {
        (1u128 << bw) - 1
    }
}

/// words of element `i`: (first word, last word)
fn span(w: usize, bw: usize, i: usize) -> (usize, usize) {
    let p = i * bw;
    if bw == 0 {
        (0, 0)
    } else {
        (p / w, (p + bw - 1) / w)
    }
}

fn dirty_words(w: usize, nw: usize, salt: u64) -> Vec<u128> {
    let mut r = Rng(0xC13 ^ salt);
    (0..nw)
        .map(|k| {
            let x = match k % 3 {
                0 => 0xAAAA_AAAA_AAAA_AAAAu64,
                1 => r.next_u64(),
                _ => u64::MAX,
            };
            (x as u128) & mask(w)
        })
        .collect()
}

fn abfv_case(w: usize, bw: usize, len: usize, extra: usize, salt: u64) -> Case {
    let nw = std::cmp::max(1, (len * bw + w - 1) / w) + extra;
    Case {
        vecs: vec![VDecl::Abfv {
            w,
            bw,
            len,
            words: dirty_words(w, nw, salt),
        }],
        progs: vec![],
        conflict: false,
    }
}

/// a value for element `i` that differs from the current contents in most bits
fn flip_val(case: &Case, i: usize, variant: u64) -> u128 {
    if let VDecl::Abfv { w, bw, words, .. } = &case.vecs[0] {
        let cur = get_bits(words, *w, i * bw, *bw);
        match variant % 3 {
            0 => !cur & mask(*bw),
            1 => mask(*bw),
            _ => (0x5555_5555_5555_5555u128 ^ (i as u128)) & mask(*bw),
        }
    } else {
        0
    }
}

/// index pairs / triples placing writers on the same word, adjacent words, straddling fields
fn placements(w: usize, bw: usize, len: usize, k: usize) -> Vec<(String, Vec<usize>)> {
    let mut out: Vec<(String, Vec<usize>)> = vec![];
    let single = |i: usize| span(w, bw, i).0 == span(w, bw, i).1;
    let idx: Vec<usize> = (0..len).collect();
    let mut add = |name: &str, v: Vec<usize>| {
        if v.len() == k && !out.iter().any(|(n, _)| n == name) {
            out.push((name.to_string(), v));
        }
    };
    // same word, all single-word
    for &i in &idx {
        let v: Vec<usize> = (i..len.min(i + k)).collect();
        if v.len() == k && v.iter().all(|&j| single(j) && span(w, bw, j).0 == span(w, bw, i).0) {
            add("same-word", v);
        }
    }
    // adjacent words, single-word fields that are not neighbours in one word
    for &i in &idx {
        if !single(i) {
            continue;
        }
        let mut v = vec![i];
        for &j in &idx {
            if v.len() < k && single(j) && span(w, bw, j).0 == span(w, bw, *v.last().unwrap()).0 + 1 {
                v.push(j);
            }
        }
        add("adjacent-words", v);
    }
    // a straddling field with its left / right neighbours
    for &s in &idx {
        if single(s) {
            continue;
        }
        if s + 1 >= k {
            add("straddle+left", (s + 1 - k..=s).collect());
        }
        if s + k <= len {
            add("straddle+right", (s..s + k).collect());
        }
        if k == 3 && s >= 1 && s + 1 < len {
            add("straddle-middle", vec![s - 1, s, s + 1]);
        }
        // next straddling field sharing a word with this one
        for &s2 in &idx {
            if s2 > s && !single(s2) && span(w, bw, s2).0 == span(w, bw, s).1 {
                let mut v = vec![s, s2];
                if k == 3 {
                    if s2 + 1 < len {
                        v.push(s2 + 1);
                    } else {
                        continue;
                    }
                }
                add("two-straddlers", v);
            }
        }
    }
    out
}

fn widths(w: usize) -> Vec<usize> {
    let mut v = vec![1, 3, 7, w / 2 + 1, w - 1];
    v.sort();
    v.dedup();
    v.retain(|&b| b >= 1 && b <= w);
    v
}

/// exhaustive core: all interleavings of `k` writers of distinct elements
fn exhaustive_writers(ctx: &mut Ctx, k: usize, wsizes: &[usize], bws: Option<&[usize]>, with_get: bool, cap: usize) {
    for &w in wsizes {
        let bl = match bws {
            Some(b) => b.to_vec(),
            None => widths(w),
        };
        for bw in bl {
            let len = (3 * w) / bw + 2;
            for (pi, (name, ix)) in placements(w, bw, len, k).into_iter().enumerate() {
                let mut case = abfv_case(w, bw, len, 1, (w * 1000 + bw * 10 + pi) as u64);
                for (t, &i) in ix.iter().enumerate() {
                    let v = flip_val(&case, i, (t + pi) as u64);
                    let mut p = vec![POp {
                        k: if (t + pi) % 2 == 0 { K::Set } else { K::SetU },
                        vec: 0,
                        i,
                        x: v,
                    }];
                    if with_get {
                        p.push(POp {
                            k: if t % 2 == 0 { K::Get } else { K::GetU },
                            vec: 0,
                            i,
                            x: 0,
                        });
                    }
                    case.progs.push(p);
                }
                let use64 = pi % 2 == 1;
                let c = exhaustive(ctx, &case, use64, cap);
                ctx.shape(format!("exh{}:{}:W{}:bw{}:get{}", k, name, w, bw, with_get));
                ctx.stat(&format!("exhaustive{}:cases", k));
                *ctx.stats.entry(format!("exhaustive{}:schedules", k)).or_insert(0) += c as u64;
            }
        }
    }
}

fn directed(ctx: &mut Ctx) {
    // (1) all interleavings of two writers of distinct elements
    exhaustive_writers(ctx, 2, &[8, 16, 32, 64], None, false, 100_000);
    // full-width and zero-width elements
    for &w in &[8usize, 64] {
        for &bw in &[0usize, w] {
            let mut case = abfv_case(w, bw, 3, 1, 77);
            case.progs = vec![
                vec![POp { k: K::Set, vec: 0, i: 0, x: if bw == 0 { 0 } else { 1 } }, POp { k: K::Get, vec: 0, i: 0, x: 0 }],
                vec![POp { k: K::Set, vec: 0, i: 1, x: if bw == 0 { 0 } else { mask(bw) - 1 } }, POp { k: K::Get, vec: 0, i: 1, x: 0 }],
            ];
            exhaustive(ctx, &case, false, 100_000);
            ctx.shape(format!("exh2:edge-width:W{}:bw{}", w, bw));
        }
    }
    // (2) writer + own read-back (sites 1 and 2) on the small word size
    exhaustive_writers(ctx, 2, &[8], Some(&[3, 5, 7]), true, 100_000);
    // (3) conflicting writers of the same straddling element: torn values are possible, the
    // machine must predict exactly which
    {
        let mut case = abfv_case(8, 5, 4, 0, 5);
        case.conflict = true;
        case.progs = vec![
            vec![POp { k: K::Set, vec: 0, i: 1, x: 0b11111 }, POp { k: K::Get, vec: 0, i: 1, x: 0 }],
            vec![POp { k: K::Set, vec: 0, i: 1, x: 0 }],
        ];
        exhaustive(ctx, &case, false, 100_000);
        ctx.shape("exh2:conflict-straddle".into());
    }
    // (4) checked calls that panic before any atomic operation
    {
        let mut case = abfv_case(16, 5, 6, 0, 9);
        case.progs = vec![
            vec![
                POp { k: K::Set, vec: 0, i: 0, x: 31 },
                POp { k: K::Set, vec: 0, i: 6, x: 1 },
                POp { k: K::Set, vec: 0, i: 1, x: 1 },
            ],
            vec![POp { k: K::Set, vec: 0, i: 2, x: 32 }],
            vec![POp { k: K::Get, vec: 0, i: 6, x: 0 }],
            vec![POp { k: K::Set, vec: 0, i: 3, x: 9 }, POp { k: K::Get, vec: 0, i: 7, x: 0 }],
        ];
        exhaustive(ctx, &case, false, 100_000);
        ctx.shape("exh:panics".into());
    }
    // (5) AtomicBitVec: set / swap / get on the same bit, same word, adjacent words
    {
        let base = Case {
            vecs: vec![VDecl::Abv {
                len: 130,
                words: vec![0xF0F0, u64::MAX as u128, 0b10],
            }],
            progs: vec![],
            conflict: false,
        };
        let progs: Vec<Vec<Vec<POp>>> = vec![
            // swaps on one shared bit
            vec![
                vec![POp { k: K::BSwap, vec: 0, i: 3, x: 1 }, POp { k: K::BSwap, vec: 0, i: 3, x: 0 }],
                vec![POp { k: K::BSwap, vec: 0, i: 3, x: 1 }, POp { k: K::BGet, vec: 0, i: 3, x: 0 }],
            ],
            vec![
                vec![POp { k: K::BSwap, vec: 0, i: 64, x: 0 }],
                vec![POp { k: K::BSwap, vec: 0, i: 64, x: 0 }],
                vec![POp { k: K::BSwap, vec: 0, i: 64, x: 1 }],
            ],
            // distinct bits of one word, of adjacent words, last bit, bits beyond len untouched
            vec![
                vec![POp { k: K::BSet, vec: 0, i: 0, x: 1 }, POp { k: K::BSet, vec: 0, i: 63, x: 1 }],
                vec![POp { k: K::BSet, vec: 0, i: 4, x: 0 }, POp { k: K::BSet, vec: 0, i: 64, x: 0 }],
                vec![POp { k: K::BSet, vec: 0, i: 129, x: 0 }, POp { k: K::BGet, vec: 0, i: 129, x: 0 }],
            ],
            // out of range: panics
            vec![
                vec![POp { k: K::BSet, vec: 0, i: 130, x: 1 }, POp { k: K::BSet, vec: 0, i: 1, x: 1 }],
                vec![POp { k: K::BSwap, vec: 0, i: 131, x: 1 }],
                vec![POp { k: K::BGet, vec: 0, i: 1000, x: 0 }],
                vec![POp { k: K::BSwap, vec: 0, i: 129, x: 1 }],
            ],
        ];
        for (k, p) in progs.into_iter().enumerate() {
            let mut c = base.clone();
            c.progs = p;
            exhaustive(ctx, &c, false, 100_000);
            ctx.shape(format!("exh:abv:{}", k));
        }
    }
    // (6) two vectors in one memory: bit-field writers + bit writers
    {
        let mut case = abfv_case(64, 33, 5, 1, 3);
        case.vecs.push(VDecl::Abv { len: 70, words: vec![7, 0xFF00] });
        case.progs = vec![
            vec![POp { k: K::SetU, vec: 0, i: 1, x: 0x1_2345_6789 }, POp { k: K::BSwap, vec: 1, i: 69, x: 1 }],
            vec![POp { k: K::BSet, vec: 1, i: 2, x: 0 }, POp { k: K::Set, vec: 0, i: 2, x: 0 }],
        ];
        exhaustive(ctx, &case, true, 100_000);
        ctx.shape("exh2:two-vectors".into());
    }
    // (7) concurrent Elias–Fano builder, all interleavings of small builds
    for (n, u, xs, parts) in [
        (3usize, 10usize, vec![0usize, 5, 10], vec![vec![0usize, 2], vec![1]]),
        (3, 2, vec![0, 0, 2], vec![vec![2], vec![0, 1]]),
        (2, 1000, vec![3, 999], vec![vec![1], vec![0]]),
        (3, 200, vec![7, 7, 200], vec![vec![1, 0], vec![2]]),
        // l = 13: element 4 straddles the words 0/1 of the lower bits (bits 52..65), element 5 lies
        // in word 1: the straddling writer's second CAS races with its neighbour's write
        (6, 49152, vec![8191, 16383, 24575, 32767, 40959, 49151], vec![vec![4], vec![5]]),
        (6, 49152, vec![1, 8192, 16385, 24576, 40959, 49151], vec![vec![5, 3], vec![4]]),
        // l = 40 (u = 3 * 2^40): element 1 straddles (bits 40..80), element 2 follows in word 1
        (3, 3298534883328, vec![1099511627775, 2199023255551, 3298534883327], vec![vec![1], vec![2]]),
    ] {
        let mut case = Case { vecs: vec![VDecl::Ef { n, u }], progs: vec![], conflict: false };
        for p in parts {
            case.progs.push(p.iter().map(|&i| POp { k: K::EfSet, vec: 0, i, x: xs[i] as u128 }).collect());
        }
        exhaustive(ctx, &case, false, 100_000);
        emit_efseq(ctx, n, u, &xs);
        ctx.shape(format!("exh:ef:n{}:u{}", n, u));
    }
}

fn gen_width(ctx: &mut Ctx, w: usize) -> usize {
    match ctx.rng.below(10) {
        0 => 1,
        1 => 3,
        2 => 7.min(w),
        3 => w / 2 + 1,
        4 => w - 1,
        5 => w,
        6 => w / 2,
        7 => 0,
        _ => 1 + ctx.rng.usize_below(w),
    }
}

/// random case: 3 (sometimes 2) threads, writers of distinct elements clustered around word
/// boundaries, read-backs, bit set/swap on a second vector, a few malformed calls
fn random_case(ctx: &mut Ctx) {
    let w = *ctx.rng.pick(&[8usize, 16, 32, 64, 64]);
    let bw = gen_width(ctx, w);
    let nthreads = if ctx.rng.chance(1, 5) { 2 } else { 3 };
    let len = if bw == 0 { 1 + ctx.rng.usize_below(6) } else { (2 * w) / bw + 2 + ctx.rng.usize_below(6) };
    let extra = ctx.rng.usize_below(2);
    let nw = std::cmp::max(1, (len * bw + w - 1) / w) + extra;
    let words: Vec<u128> = (0..nw).map(|_| (ctx.rng.word() as u128) & mask(w)).collect();
    let mut case = Case {
        vecs: vec![VDecl::Abfv { w, bw, len, words }],
        progs: vec![vec![]; nthreads],
        conflict: false,
    };
    let with_abv = w == 64 && ctx.rng.chance(1, 2);
    let mut blen = 0;
    if with_abv {
        blen = *ctx.rng.pick(&[1usize, 63, 64, 65, 100, 128]);
        let bwn = (blen + 63) / 64 + ctx.rng.usize_below(2);
        let bwords: Vec<u128> = (0..bwn).map(|_| ctx.rng.word() as u128).collect();
        case.vecs.push(VDecl::Abv { len: blen, words: bwords });
    }
    let conflict = ctx.rng.chance(1, 12);
    let malformed = ctx.rng.chance(1, 8);
    // a window of consecutive elements, dealt to the threads
    let nel = (nthreads + ctx.rng.usize_below(4)).min(len);
    let start = ctx.rng.usize_below(len - nel + 1);
    let mut kinds = std::collections::BTreeSet::new();
    for e in 0..nel {
        let t = ctx.rng.usize_below(nthreads);
        let i = start + e;
        let x = match ctx.rng.below(4) {
            0 => mask(bw),
            1 => 0,
            _ => ((ctx.rng.next_u64() as u128) << 64 | ctx.rng.next_u64() as u128) & mask(bw),
        };
        let k = if ctx.rng.bool() { K::Set } else { K::SetU };
        case.progs[t].push(POp { k, vec: 0, i, x });
        kinds.insert(if span(w, bw, i).0 == span(w, bw, i).1 { "set1" } else { "set2" });
        if ctx.rng.chance(1, 3) {
            // read back own element, or any element
            let gi = if ctx.rng.chance(2, 3) { i } else { ctx.rng.usize_below(len) };
            case.progs[t].push(POp { k: if ctx.rng.bool() { K::Get } else { K::GetU }, vec: 0, i: gi, x: 0 });
            kinds.insert("get");
        }
        if conflict && e == 0 && bw > 0 {
            let t2 = (t + 1) % nthreads;
            case.progs[t2].push(POp { k: K::Set, vec: 0, i, x: !x & mask(bw) });
            case.conflict = true;
            kinds.insert("conflict");
        }
    }
    if with_abv {
        let nb = 1 + ctx.rng.usize_below(5);
        let hot = ctx.rng.usize_below(blen);
        for _ in 0..nb {
            let t = ctx.rng.usize_below(nthreads);
            let i = if ctx.rng.chance(1, 2) { hot } else { ctx.rng.usize_below(blen) };
            let k = match ctx.rng.below(5) {
                0 | 1 => K::BSwap,
                2 => K::BGet,
                _ => K::BSet,
            };
            let at = ctx.rng.usize_below(case.progs[t].len() + 1);
            case.progs[t].insert(at, POp { k, vec: 1, i, x: ctx.rng.below(2) as u128 });
            kinds.insert(match k {
                K::BSwap => "bswap",
                K::BGet => "bget",
                _ => "bset",
            });
        }
    }
    if malformed {
        let t = ctx.rng.usize_below(nthreads);
        let op = match ctx.rng.below(4) {
            0 => POp { k: K::Set, vec: 0, i: len + ctx.rng.usize_below(3), x: 0 },
            1 if bw < w => POp { k: K::Set, vec: 0, i: ctx.rng.usize_below(len), x: mask(bw) + 1 },
            2 if with_abv => POp { k: *ctx.rng.pick(&[K::BSet, K::BSwap, K::BGet]), vec: 1, i: blen + ctx.rng.usize_below(70), x: 1 },
            _ => POp { k: K::Get, vec: 0, i: len, x: 0 },
        };
        // a value that does not fit makes an oracle-relevant conflict impossible: the call panics
        let at = ctx.rng.usize_below(case.progs[t].len() + 1);
        case.progs[t].insert(at, op);
        kinds.insert("malformed");
    }
    emit_decls(ctx, &case);
    let nsched = 1 + ctx.rng.usize_below(3);
    for _ in 0..nsched {
        let plan = if ctx.rng.chance(1, 6) {
            // runs of the same thread: long stretches without preemption
            let mut v = vec![];
            while v.len() < 60 {
                let r = ctx.rng.next_u64();
                for _ in 0..1 + ctx.rng.usize_below(5) {
                    v.push(r % 6); // divisible by 1, 2, 3: keeps choosing the same slot
                }
            }
            Plan::Idx(v)
        } else {
            Plan::Idx((0..80).map(|_| ctx.rng.next_u64() % 6).collect())
        };
        let use64 = ctx.rng.bool();
        emit_schedule(ctx, &case, &plan, use64);
    }
    ctx.shape(format!(
        "rnd:W{}:bw{}:{}:{}",
        w,
        if bw == 0 { "0" } else if bw == w { "W" } else if 2 * bw > w { ">W/2" } else { "<=W/2" },
        nthreads,
        kinds.into_iter().collect::<Vec<_>>().join(",")
    ));
}

/// random concurrent Elias–Fano build: monotone values, random partition of the indices
fn random_ef(ctx: &mut Ctx) {
    let n = 1 + ctx.rng.usize_below(12);
    let u = match ctx.rng.below(7) {
        0 => ctx.rng.usize_below(n + 1),
        1 => n + ctx.rng.usize_below(4 * n),
        2 => 1 << (3 + ctx.rng.usize_below(20)),
        // universes close to `usize::MAX` (documented as supported): `value + (index << l)` and
        // similar folded forms do not fit a word there
        3 => match ctx.rng.below(3) {
            0 => usize::MAX,
            1 => 1usize << 63,
            _ => (1usize << 63) + ctx.rng.usize_below(1usize << 62),
        },
        _ => n * (1 + ctx.rng.usize_below(300)),
    };
    let huge = u >= 1usize << 63;
    let mut xs: Vec<usize> = (0..n)
        .map(|_| {
            if huge {
                match ctx.rng.below(3) {
                    0 => ctx.rng.usize_below(1000),
                    1 => u - ctx.rng.usize_below(1000),
                    _ => ((ctx.rng.next_u64() as u128) % (u as u128 + 1)) as usize,
                }
            } else {
                ctx.rng.usize_below(u + 1)
            }
        })
        .collect();
    xs.sort();
    if ctx.rng.chance(1, 4) {
        xs[n - 1] = u;
    }
    let nthreads = 2 + ctx.rng.usize_below(2);
    let mut case = Case { vecs: vec![VDecl::Ef { n, u }], progs: vec![vec![]; nthreads], conflict: false };
    let mut order: Vec<usize> = (0..n).collect();
    for k in (1..n).rev() {
        order.swap(k, ctx.rng.usize_below(k + 1));
    }
    for i in order {
        let t = ctx.rng.usize_below(nthreads);
        case.progs[t].push(POp { k: K::EfSet, vec: 0, i, x: xs[i] as u128 });
    }
    emit_decls(ctx, &case);
    for _ in 0..2 {
        let plan = Plan::Idx((0..120).map(|_| ctx.rng.next_u64() % 6).collect());
        emit_schedule(ctx, &case, &plan, false);
    }
    emit_efseq(ctx, n, u, &xs);
    if ctx.rng.chance(1, 6) {
        // the sequential builder's own checks: too few / too many / too large / not monotone
        let mut ys = xs.clone();
        match ctx.rng.below(4) {
            0 => {
                ys.pop();
            }
            1 => ys.push(u),
            2 if u < usize::MAX => ys[n - 1] = u + 1,
            _ => ys.reverse(),
        }
        emit_efseq(ctx, n, u, &ys);
    }
    let (l, _, _, _) = ef_shape(n, u);
    ctx.shape(format!("rnd:ef:l{}:{}", if l == 0 { "0".into() } else if l < 8 { "small".to_string() } else if huge { "huge".into() } else { "big".into() }, nthreads));
}

pub fn run(ctx: &mut Ctx) {
    sux::verif::set_sched_hook(Some(Box::new(hook)));
    directed(ctx);
    let (nr, ne) = if ctx.tier == Tier::Quick { (1000, 150) } else { (12000, 2000) };
    for _ in 0..nr {
        random_case(ctx);
    }
    for _ in 0..ne {
        random_ef(ctx);
    }
    if ctx.tier == Tier::Thorough {
        // all interleavings of three writers of distinct elements (small word size)
        exhaustive_writers(ctx, 3, &[8], Some(&[1, 3, 5, 7]), false, 400_000);
        exhaustive_writers(ctx, 2, &[16], Some(&[9, 15]), true, 100_000);
    }
    sux::verif::set_sched_hook(None);
}

// ------------------------------------------------------------------------------------ replay

fn parse_list(s: &str) -> Vec<u128> {
    s[1..s.len() - 1]
        .split(',')
        .filter(|x| !x.is_empty())
        .map(|x| x.parse().unwrap())
        .collect()
}

/// re-execute the lines of a replay file: declarations rebuild the case; a `plan` line is
/// followed; a `schedule` line without a preceding plan is forced thread by thread
pub fn replay(ctx: &mut Ctx, lines: &[String]) {
    sux::verif::set_sched_hook(Some(Box::new(hook)));
    let mut case = Case::default();
    let mut declared = false;
    let mut pending: Option<Plan> = None;
    let flush = |ctx: &mut Ctx, case: &Case, declared: &mut bool| {
        if !*declared {
            emit_decls(ctx, case);
            *declared = true;
        }
    };
    for l in lines {
        let t: Vec<&str> = l.split(' ').collect();
        let num = |i: usize| -> usize { t[i].parse().unwrap() };
        match t[0] {
            "case" => {
                case = Case::default();
                declared = false;
                pending = None;
            }
            "vec" => match t[1] {
                "abfv" => case.vecs.push(VDecl::Abfv { w: num(2), bw: num(3), len: num(4), words: parse_list(t[5]) }),
                "abv" => case.vecs.push(VDecl::Abv { len: num(2), words: parse_list(t[3]) }),
                _ => case.vecs.push(VDecl::Ef { n: num(2), u: num(3) }),
            },
            "thread" => {
                let th = num(1);
                while case.progs.len() <= th {
                    case.progs.push(vec![]);
                }
                if t[2] == "none" {
                    continue;
                }
                let op = match t[2] {
                    "efset" => POp { k: K::EfSet, vec: 0, i: num(3), x: t[4].parse().unwrap() },
                    "get" => POp { k: K::Get, vec: num(3), i: num(4), x: 0 },
                    "getu" => POp { k: K::GetU, vec: num(3), i: num(4), x: 0 },
                    "bget" => POp { k: K::BGet, vec: num(3), i: num(4), x: 0 },
                    k => POp {
                        k: match k {
                            "set" => K::Set,
                            "setu" => K::SetU,
                            "bset" => K::BSet,
                            _ => K::BSwap,
                        },
                        vec: num(3),
                        i: num(4),
                        x: t[5].parse().unwrap(),
                    },
                };
                case.progs[th].push(op);
            }
            "efseq" => {
                flush(ctx, &case, &mut declared);
                let xs: Vec<usize> = parse_list(t[3]).into_iter().map(|x| x as usize).collect();
                emit_efseq(ctx, num(1), num(2), &xs);
            }
            "plan" => {
                pending = Some(if t[1] == "ids" {
                    Plan::Ids(parse_list(t[2]).into_iter().map(|x| x as usize).collect())
                } else {
                    Plan::Idx(parse_list(t[2]).into_iter().map(|x| x as u64).collect())
                });
            }
            "schedule" => {
                flush(ctx, &case, &mut declared);
                let plan = pending.take().unwrap_or_else(|| {
                    Plan::Ids(parse_list(t[1]).into_iter().map(|x| x as usize).collect())
                });
                // conflicting writers cannot be told from the lines: skip the sequential oracle
                // when two threads write overlapping ranges with different values is decided by
                // the oracle itself (contested bits), so nothing to do here
                emit_schedule(ctx, &case, &plan, false);
            }
            _ => panic!("unknown op {}", l),
        }
    }
    sux::verif::set_sched_hook(None);
}
