use sux::prelude::*;
use sux::rank_sel::{SelectAdaptConst, SelectZeroAdaptConst};

#[test]
fn map_keeps_parameters() {
    // ones at multiples of 3 over 100000 bits
    let n = 100_000usize;
    let bits: BitVec = (0..n).map(|i| i % 3 == 0).collect();
    let ones: Vec<usize> = (0..n).filter(|i| i % 3 == 0).collect();
    let zeros: Vec<usize> = (0..n).filter(|i| i % 3 != 0).collect();
    let sel = SelectAdaptConst::<_, _, 5, 2>::new(AddNumBits::from(bits.clone()));
    for (r, &p) in ones.iter().enumerate().step_by(97) {
        assert_eq!(sel.select(r), Some(p), "before map, rank {r}");
    }
    let sel = unsafe { sel.map(|b| b) };
    let mut wrong = 0;
    for (r, &p) in ones.iter().enumerate() {
        if sel.select(r) != Some(p) { wrong += 1; }
    }
    assert_eq!(wrong, 0, "SelectAdaptConst<5,2>: {wrong} wrong answers after map");
    let selz = SelectZeroAdaptConst::<_, _, 5, 2>::new(AddNumBits::from(bits));
    let selz = unsafe { selz.map(|b| b) };
    let mut wrong = 0;
    for (r, &p) in zeros.iter().enumerate() {
        if selz.select_zero(r) != Some(p) { wrong += 1; }
    }
    assert_eq!(wrong, 0, "SelectZeroAdaptConst<5,2>: {wrong} wrong answers after map");
}
