/*
 * D31 demonstration: an EMPTY shard kills a `VBuilder::par_solve` worker
 * (`return` instead of `continue`). With `max_num_threads(1)` no worker is
 * left, the producer's `send` fails, no error is reported, and the function
 * is returned with all later shards unsolved.
 *
 * Run (release mode, needs ~8 GB of RAM):
 *
 *   CARGO_NET_OFFLINE=true cargo test --release --offline -j 8 --features mwhc \
 *       --test d31_demo -- --nocapture
 *
 * Environment knobs:
 *   D31_EMPTY    comma-separated list of scenarios; each is the index of the
 *                shard to be left empty, or `none` (default: "0,64")
 *   D31_Q        per-shard key quota (default 940000)
 *   D31_THREADS  max_num_threads (default 1)
 *   D31_EPS      eps passed to the builder (default 0.01)
 *   D31_EXPECT   "bug" => the test PASSES iff wrong answers are observed in
 *                some scenario with an empty shard;
 *                "ok"  => the test PASSES iff no wrong answer at all (default)
 */
#![cfg(feature = "mwhc")]

use std::time::Instant;

use dsi_progress_logger::*;
use rand::{rngs::SmallRng, Rng, SeedableRng};
use sux::{
    bits::BitFieldVec,
    func::{shard_edge::Mwhc3Shards, VBuilder},
    utils::{FromIntoIterator, ToSig},
};

/// Verbatim copy of the private `sharding_high_bits` of src/func/shard_edge.rs
fn sharding_high_bits(n: usize, eps: f64) -> u32 {
    let t = (n as f64 * eps * eps / 2.0).max(1.);
    (t.log2() - t.ln().max(1.).log2()).floor() as u32
}

/// Verbatim copy of the private `mwhc::dup_edge_high_bits` (arity 3) of
/// src/func/shard_edge.rs
fn dup_edge_high_bits(n: usize, c: f64, eta: f64) -> u32 {
    let n = n as f64;
    (0.5 * (n.log2() + 1. + 3. * c.log2() - 3. * 3_f64.log2() + (-(1. - eta).ln()).log2())).floor()
        as u32
}

fn env_or<T: std::str::FromStr>(name: &str, default: T) -> T {
    std::env::var(name)
        .ok()
        .and_then(|s| s.parse().ok())
        .unwrap_or(default)
}

/// Returns (number of wrong answers, number of keys) for one scenario.
fn scenario(empty: Option<usize>, q: usize, threads: usize, eps: f64) -> (usize, usize) {
    const BITS: u32 = 7;
    const S: usize = 1 << BITS;

    // The seed of the FIRST attempt: `build_loop` does
    //   let mut prng = SmallRng::seed_from_u64(self.seed);   // self.seed == 0 by default
    //   loop { let seed = prng.random(); ... try_seed(seed, ...) ... }
    let builder_seed = 0_u64;
    let first_seed: u64 = SmallRng::seed_from_u64(builder_seed).random();

    let full_shards = if empty.is_some() { S - 1 } else { S };
    let n = q * full_shards;

    let shb = sharding_high_bits(n, eps);
    let deb = dup_edge_high_bits(n, 1.23, 0.001);
    println!("==== D31 scenario: empty shard = {empty:?}, threads = {threads} ====");
    println!(
        "n = {n}, quota/shard = {q}, eps = {eps}, builder seed = {builder_seed}, first attempt seed = 0x{first_seed:016x}"
    );
    println!(
        "sharding_high_bits(n, eps) = {shb}, dup_edge_high_bits(3, n, 1.23, 0.001) = {deb} => shard_high_bits = {}",
        shb.min(deb)
    );
    assert_eq!(shb.min(deb), BITS, "n/eps do not give 2^7 shards");
    // The guard of try_seed:  max_shard > 1.01 * n / num_shards  => MaxShardTooBig
    println!(
        "max_shard = {q}, 1.01 * n / num_shards = {:.1} (guard passes: {})",
        1.01 * n as f64 / S as f64,
        !(q as f64 > 1.01 * n as f64 / S as f64)
    );
    assert!(!(q as f64 > 1.01 * n as f64 / S as f64));

    // Craft the keys: candidates 0, 1, 2, ...; skip the keys falling in the
    // shard to be left empty or in a shard whose quota is full.
    let start = Instant::now();
    let shard_of = |key: u64| -> usize {
        let sig: [u64; 2] = <u64 as ToSig<[u64; 2]>>::to_sig(key, first_seed);
        // Mwhc3Shards::shard: (sig[0] >> shard_bits_shift >> 1), shard_bits_shift = 63 - 7
        (sig[0] >> (63 - BITS) >> 1) as usize
    };
    let mut keys: Vec<u64> = Vec::with_capacity(n);
    let mut sizes = vec![0_usize; S];
    let mut cand = 0_u64;
    while keys.len() < n {
        let s = shard_of(cand);
        if Some(s) != empty && sizes[s] < q {
            sizes[s] += 1;
            keys.push(cand);
        }
        cand += 1;
    }
    println!(
        "crafted {} keys out of {} candidates in {:.1} s; crafted shard sizes: min nonempty = {}, max = {}, empty shards = {:?}",
        keys.len(),
        cand,
        start.elapsed().as_secs_f64(),
        sizes.iter().copied().filter(|&x| x > 0).min().unwrap(),
        sizes.iter().copied().max().unwrap(),
        sizes
            .iter()
            .enumerate()
            .filter(|(_, &x)| x == 0)
            .map(|(i, _)| i)
            .collect::<Vec<_>>()
    );

    let mut pl = ProgressLogger::default();
    let start = Instant::now();
    let result = VBuilder::<usize, BitFieldVec<usize>, [u64; 2], Mwhc3Shards>::default()
        .expected_num_keys(n)
        .offline(false)
        .max_num_threads(threads)
        .eps(eps)
        .try_build_func(
            FromIntoIterator::from(keys.iter().copied()),
            FromIntoIterator::from(0_usize..),
            &mut pl,
        );
    println!(
        "try_build_func returned {} after {:.1} s",
        if result.is_ok() { "Ok" } else { "Err" },
        start.elapsed().as_secs_f64()
    );
    let func = result.expect("build failed");
    println!("func.len() = {}", func.len());

    // Check ALL keys: value of the i-th key is i.
    let start = Instant::now();
    let mut wrong = vec![0_usize; S];
    let mut wrong_zero = 0_usize;
    let mut first_wrong: Option<(usize, u64, usize)> = None;
    for (i, &key) in keys.iter().enumerate() {
        let got = func.get(key);
        if got != i {
            let s = shard_of(key);
            wrong[s] += 1;
            if got == 0 {
                wrong_zero += 1;
            }
            if first_wrong.is_none() {
                first_wrong = Some((i, key, got));
            }
        }
    }
    let total_wrong: usize = wrong.iter().sum();
    println!(
        "checked {} keys in {:.1} s: {} wrong answers ({} of them are 0)",
        keys.len(),
        start.elapsed().as_secs_f64(),
        total_wrong,
        wrong_zero
    );
    if let Some((i, key, got)) = first_wrong {
        println!("first wrong answer: key #{i} = {key}: get() = {got}, expected {i}");
    }
    println!("shard: keys / wrong answers");
    for s in 0..S {
        print!("{s:3}: {}/{}  ", sizes[s], wrong[s]);
        if s % 4 == 3 {
            println!();
        }
    }
    let all_wrong = (0..S).filter(|&s| sizes[s] > 0 && wrong[s] == sizes[s]).count();
    let all_right = (0..S).filter(|&s| sizes[s] > 0 && wrong[s] == 0).count();
    println!(
        "nonempty shards entirely wrong: {all_wrong}; entirely right: {all_right}; mixed: {}",
        full_shards - all_wrong - all_right
    );
    (total_wrong, n)
}

#[test]
fn d31_demo() {
    let _ = env_logger::builder()
        .is_test(false)
        .filter_level(log::LevelFilter::Info)
        .try_init();

    let q: usize = env_or("D31_Q", 940_000);
    let threads: usize = env_or("D31_THREADS", 1);
    let eps: f64 = env_or("D31_EPS", 0.01);
    let empties = std::env::var("D31_EMPTY").unwrap_or_else(|_| "0,64".to_string());
    let expect = std::env::var("D31_EXPECT").unwrap_or_else(|_| "ok".to_string());

    let mut wrong_with_empty = 0;
    let mut wrong_total = 0;
    for e in empties.split(',') {
        let empty = e.trim().parse::<usize>().ok();
        let (wrong, _n) = scenario(empty, q, threads, eps);
        wrong_total += wrong;
        if empty.is_some() {
            wrong_with_empty += wrong;
        }
    }
    println!("==== D31 summary: total wrong answers = {wrong_total} (with an empty shard: {wrong_with_empty}) ====");
    match expect.as_str() {
        "bug" => assert!(
            wrong_with_empty > 0,
            "defect NOT reproduced: all answers are right"
        ),
        _ => assert_eq!(wrong_total, 0, "Ok(func) returned wrong values for keys of the build set"),
    }
}
