use dsi_progress_logger::no_logging;
use sux::bits::BitFieldVec;
use sux::func::VBuilder;
use sux::utils::FromIntoIterator;
use std::sync::mpsc;
use std::time::Duration;

/// 100_000 keys, one of them repeated `copies` times, check_dups(true): must return an error
fn run(copies: usize) -> Option<bool> {
    let (tx, rx) = mpsc::channel();
    std::thread::spawn(move || {
        let n = 100_000usize;
        let keys: Vec<usize> = (0..n).map(|i| if i < copies { 0 } else { i }).collect();
        let r = VBuilder::<usize, BitFieldVec<usize>>::default()
            .check_dups(true)
            .try_build_func(FromIntoIterator::from(keys), FromIntoIterator::from(0..n), no_logging![]);
        let _ = tx.send(r.is_ok());
    });
    rx.recv_timeout(Duration::from_secs(20)).ok()
}

#[test]
fn few_copies_reports_duplicate() {
    assert_eq!(run(2), Some(false));
    assert_eq!(run(300), Some(false));
}

#[test]
fn many_copies_must_terminate() {
    for c in [400usize, 600, 800, 1000, 1200, 2000, 3000, 20000] {
        let r = run(c);
        eprintln!("copies {} -> {:?}", c, r);
    }
}
